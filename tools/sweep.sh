#!/bin/bash
# usage: tools/sweep.sh "C02 C03" "2 3 7 42" [tier]  -- runs checks at several seeds, prints summary lines
cd "$(dirname "$0")/.."
tier=${3:-quick}
for p in $1; do for s in $2; do
  out=$(VERIF_SEED=$s ./check $p --tier $tier 2>&1); rc=$?
  echo "== $p seed=$s rc=$rc: $(echo "$out" | grep -E 'OK property|VIOLATION|HARNESS|KNOWN' | head -5 | tr '\n' ' ')"
  if [ $rc -ne 0 ]; then echo "$out" | tail -15; fi
done; done
