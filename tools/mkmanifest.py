#!/venv/bin/python
"""Regenerates MANIFEST.json from the table below and validates it."""
import json, os, sys
ROOT = os.path.dirname(os.path.dirname(os.path.abspath(__file__)))
sys.path.insert(0, ROOT)
from tools.manifest_table import CLAIMED, NOT_YET

props = [json.loads(l) for l in open(os.path.join(ROOT, "properties.jsonl"))]
ids = [p["id"] for p in props]
checks = []
for pid in ids:
    if pid not in CLAIMED:
        continue
    c = CLAIMED[pid]
    checks.append({
        "property_id": pid,
        "quick_cmd": f"./check {pid} --tier quick",
        "thorough_cmd": f"./check {pid} --tier thorough",
        "evidence_file": f"/verif/evidence/{pid}.json",
        "replay_cmd_template": f"./check {pid} --replay {{path}}",
        "engine": "pv",
        "level_claimed": {
            "category": "exploration",
            "text": c["text"],
            "design_ref": c.get("design_ref", f"DESIGN.md section 3 ({pid})"),
        },
        "level_note": c["note"],
        "technique": c["technique"],
    })
na = [{"property_id": pid, "reason": NOT_YET.get(pid, "check not built yet in this round; no claim is made")}
      for pid in ids if pid not in CLAIMED]
man = {
    "version": 1,
    "setup_cmd": "/venv/bin/pip install --no-index --find-links /opt/veriftools/wheels hypothesis >/dev/null 2>&1; /venv/bin/python -c 'import hypothesis, numpy, scipy, qutip, jsonschema' && chmod +x /verif/check",
    "hooks": {
        "guard": "PULSER_VERIF",
        "enable": "no source hooks are needed: checks import the working tree (PYTHONPATH=/repo/pulser-core:/repo/pulser-simulation) and observe public API plus read-only private state",
        "baseline_off_cmd": "cd /repo && /venv/bin/python -m pytest -ra -q -p no:cacheprovider --timeout=900 --continue-on-collection-errors",
        "source_commits": [],
        "add_only": True,
    },
    "engines": [{
        "name": "pv",
        "path": "/verif/pv",
        "serves_properties": [c["property_id"] for c in checks],
        "kind_free_text": "property-based testing: seeded Hypothesis strategies over JSON programs/cases + exhaustive enumeration of finite sub-domains, explicit reference-model / round-trip / metamorphic oracles, bucketing by (clause, discriminator), shrinking to JSON replay files",
    }],
    "checks": checks,
    "not_applicable": na,
    "notes": "All checks: ./check <ID> --tier quick|thorough; VERIF_SEED selects the Hypothesis seeds; exit 2 = harness error (never a VIOLATION). known_findings.json lists genuine defects (known / fixed).",
}
open(os.path.join(ROOT, "MANIFEST.json"), "w").write(json.dumps(man, indent=1) + "\n")
import jsonschema
jsonschema.validate(man, json.load(open("/root/.vp/MANIFEST.schema.json")))
print("MANIFEST ok:", len(checks), "claimed,", len(na), "not claimed")
