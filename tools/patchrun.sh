#!/bin/bash
# usage: tools/patchrun.sh <patch file> "<check ids>" [extra ./check args]
# Like seedrun.sh, for a patch given by path.
p=$1; shift; checks=$1; shift
scr=/var/tmp/patchrun-$$
git -C /repo worktree add -q --detach $scr HEAD || exit 2
git -C $scr apply $p || { git -C /repo worktree remove --force $scr; echo "PATCH DOES NOT APPLY"; exit 2; }
cd /verif
for c in $checks; do
  PV_REPO_ROOT=$scr PV_EVIDENCE_DIR=/var/tmp/patchrun-ev-$$ ./check $c "$@" | grep -E "^(VIOLATION|OK|HARNESS|  clause=|KNOWN)" | head -8
done
git -C /repo worktree remove --force $scr; rm -rf /var/tmp/patchrun-ev-$$
