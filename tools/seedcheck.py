#!/venv/bin/python
"""Validate a seeded change and run checks against it.

usage: tools/seedcheck.py <ID> <patch> <demo.py> [--checks "C01 C02"] [--tests "tests/test_sequence.py ..."]
 1. scratch worktree of /repo HEAD under /var/tmp: demo must PASS (exit 0) without the
    patch and FAIL (exit 1) with it; optional tree tests must pass with it.
 2. git -C /repo apply <patch>; ./check <props> --tier quick; git -C /repo checkout -- .
Prints a JSON summary.
"""
import argparse, json, os, subprocess, sys, time

ap = argparse.ArgumentParser()
ap.add_argument("id"); ap.add_argument("patch"); ap.add_argument("demo")
ap.add_argument("--checks", default=""); ap.add_argument("--tests", default="")
ap.add_argument("--tier", default="quick"); ap.add_argument("--seed", default="1")
a = ap.parse_args()
patch = os.path.abspath(a.patch); demo = os.path.abspath(a.demo)
scr = f"/var/tmp/seed-{a.id}"
out = {"id": a.id}


def sh(cmd, **kw):
    return subprocess.run(cmd, shell=True, capture_output=True, text=True, **kw)


sh(f"git -C /repo worktree remove --force {scr}")
r = sh(f"git -C /repo worktree add -q --detach {scr} HEAD")
assert r.returncode == 0, r.stderr
env = dict(os.environ, PYTHONPATH=f"{scr}/pulser-core:{scr}/pulser-simulation", MPLBACKEND="Agg")
try:
    r0 = sh(f"cd {scr} && /venv/bin/python -W ignore {demo}", env=env, timeout=900)
    out["demo_without"] = (r0.returncode, (r0.stdout + r0.stderr)[-300:])
    ra = sh(f"git -C {scr} apply {patch}")
    out["apply"] = (ra.returncode, ra.stderr[-300:])
    r1 = sh(f"cd {scr} && /venv/bin/python -W ignore {demo}", env=env, timeout=900)
    out["demo_with"] = (r1.returncode, (r1.stdout + r1.stderr)[-400:])
    if a.tests:
        rt = sh(f"cd {scr} && timeout 1800 /venv/bin/python -m pytest -q -p no:cacheprovider {a.tests} -q -n 8 "
                "--deselect 'tests/test_dmm.py::TestDetuningMap::test_define_detuning_map'", env=env)
        out["tests_with"] = (rt.returncode, rt.stdout.strip().splitlines()[-1:] )
finally:
    pass
out["confirmed"] = out.get("demo_without", (9,))[0] == 0 and out.get("demo_with", (9,))[0] == 1 and (
    not a.tests or out["tests_with"][0] == 0)
res = {}
try:
    if a.checks:
        # the checks read the tree from $PV_REPO_ROOT (default /repo); pointing them at
        # the patched scratch worktree is equivalent to `git -C /repo apply` + checkout
        # and leaves /repo untouched (other work can go on meanwhile)
        for c in a.checks.split():
            t0 = time.time()
            rc = sh(f"cd /verif && PV_REPO_ROOT={scr} PV_EVIDENCE_DIR=/var/tmp/seed-ev-{a.id} VERIF_SEED={a.seed} ./check {c} --tier {a.tier}")
            lines = [l for l in rc.stdout.splitlines() if l.startswith(("VIOLATION", "  clause=", "OK", "HARNESS"))]
            res[c] = dict(rc=rc.returncode, wall=round(time.time() - t0, 1), lines=lines[:6])
finally:
    sh(f"git -C /repo worktree remove --force {scr}")
    sh(f"rm -rf /var/tmp/seed-ev-{a.id}")
out["checks"] = res
print(json.dumps(out, indent=1))
