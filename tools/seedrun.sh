#!/bin/bash
# usage: tools/seedrun.sh <seedID> "<check ids>" [extra ./check args]
# Runs checks against /repo HEAD + seeded/<seedID>/patch.diff in a scratch worktree
# (PV_REPO_ROOT), leaving /repo untouched. Removes the worktree afterwards.
id=$1; shift; checks=$1; shift
scr=/var/tmp/seedrun-$id-$$
git -C /repo worktree add -q --detach $scr HEAD || exit 2
git -C $scr apply /verif/seeded/$id/patch.diff || { git -C /repo worktree remove --force $scr; echo "PATCH DOES NOT APPLY"; exit 2; }
cd /verif
for c in $checks; do
  PV_REPO_ROOT=$scr PV_EVIDENCE_DIR=/var/tmp/seedrun-ev-$id-$$ ./check $c "$@" | grep -E "^(VIOLATION|OK|HARNESS|  clause=|KNOWN)" | head -8
done
git -C /repo worktree remove --force $scr; rm -rf /var/tmp/seedrun-ev-$id-$$
