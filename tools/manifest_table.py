HIST_NOTE = ("Trusted: the op interpreter (one JSON op = one public API call), the per-channel slot list "
             "as the record of the schedule, Pulse.fall_time as a primitive (judged separately by C14).")
CLAIMED = {
 "C02": dict(
  text="Generated call histories (Hypothesis, programs as JSON op lists incl. refused calls) with the M1 timeline invariants evaluated after every step and the sample()/str() views at the end. Exploration: thousands of histories per run, not a proof.",
  note=HIST_NOTE,
  technique="property-based testing: generated call histories + per-step invariant oracle (model-based)"),
 "C03": dict(
  text="Generated multi-channel histories; every add/add_eom_pulse/add_dmm_detuning/align is compared with an independent start-time model (M2) computed from the pre-call timeline, and estimate_added_delay is called before each add. Exploration.",
  note=HIST_NOTE + " Where the statement admits two readings (EOM state used for a fall time; zero-valued phase shifts as barriers; which pending fall time counts) both are accepted.",
  technique="property-based testing: generated histories against a reference scheduler model"),
 "C07": dict(
  text="Generated histories against a running-sum phase-reference model (M3) after every step, plus a generated Ramsey experiment on the QuTiP emulator (cos^2(phi/2) within 5e-3). Exploration.",
  note=HIST_NOTE + " Value of EOM drift corrections is C15's subject (only uniformity is required here). QuTiP solver accuracy.",
  technique="property-based testing: generated histories against a reference model + analytic metamorphic relation on the emulator"),
 "C09": dict(
  text="Generated histories with ~25% invalid calls injected at every position; canonical snapshot before/after every raising call and every read-only call, and build()/switch_register(identical) against the original; plus histories with declared variables and refused calls that use them, and EOM-heavy histories with refused EOM controls. Exploration.",
  note="Trusted: pv/snapshot.py observes all state later calls depend on (slots, EOM blocks, phase trackers, flags, call log).",
  technique="property-based testing with fault injection: generated histories, snapshot-equality oracle"),
 "C10": dict(
  text="Generated histories on channels with every combination of phase-jump time, bandwidth, clock, min duration and retarget times; lower bounds on pulse separation and retarget timing from the statement checked per step. Exploration.",
  note=HIST_NOTE + " Required separation uses the smaller of the admissible readings of 'fall time' / 'EOM rise time'.",
  technique="property-based testing: generated histories, per-step timing oracle"),
 "C19": dict(
  text="Generated search (Hypothesis) over coordinate sets, permutations, trap selections, qubit-id lists and weight vectors against an independent sort/lookup oracle, plus exhaustive enumeration of all permutations of fixed 2..6-point sets. Searched, not proved: a violation outside the generated classes can be missed.",
  note="Trusted: numpy.round/sorted as the canonical order; coordinate sets colliding after rounding are excluded by construction.",
  technique="property-based testing (Hypothesis strategies + exhaustive permutation enumeration) against a reference model"),
}
CLAIMED["C01"] = dict(
  text="Generated histories with boundary-biased pulse parameters on generated devices (every limit present/absent): limits of every newly scheduled pulse after each successful call; generated inside-limit (channel, pulse) pairs must be accepted unchanged or only lengthened; Channel.validate_duration enumerated exhaustively over a (duration, clock, min, max) box. Exploration + exhaustive sub-domain.",
  note=HIST_NOTE + " 5e-7 slack on detuning comparisons (documented 1e-6 rounding). Own nearest-trap lookup for DMM weights.",
  technique="property-based testing: generated histories/inputs with boundary-biased values + exhaustive enumeration of the duration rule")
CLAIMED["C13"] = dict(
  text="Random call sequences over the whole building/inspection alphabet on three device families against an explicit typestate automaton (must accept / must refuse / unspecified), plus four exhaustively enumerated small spaces on the physical device (the fourth on a copy limited to 150 ns, where calls are refused for length and the mode must stay): all <=4/5-call sequences from a 12-call alphabet, all <=5/6-call sequences from a 10-call alphabet with variables and DMM declarations, and all <=4/5-call continuations over {use variable, EOM controls, EOM pulse, measure, delay} after declaring an EOM channel and a variable. Exploration + exhaustive small scope.",
  note="Calls the statement does not classify are 'unspecified' (either outcome accepted, the model follows the observed outcome).",
  technique="model-based property testing: generated call sequences vs a typestate automaton + bounded exhaustive enumeration")
CLAIMED["C06"] = dict(
  text="Generated programs (Ising and XY, local/global/multi-target, DMM, EOM idle periods, SLM mask, several channels per basis) sampled and compared at every nanosecond with an independent renderer (M4) built from the slot list: per-channel arrays, extension padding, per-atom per-basis views (all_local True/False). Exploration.",
  note="Trusted: Waveform.samples and the slot list as the definition of the schedule; own nearest-trap lookup for DMM weights. Phase of the per-atom view compared only where exactly one non-zero pulse acts; padded tail of a channel left in EOM mode not compared per atom.",
  technique="property-based testing: generated programs, differential against a reference renderer")
CLAIMED["C05"] = dict(
  text="Generated programs on 1-4 atoms (Ising/XY, local/global, DMM, SLM, several bases); QutipEmulator.get_hamiltonian(t) compared entry-wise (1e-9 rel.) at every selected sample time with an independent numpy.kron construction (M5) of the documented formula from the slot list; Hermiticity 1e-12. Exploration.",
  note="Trusted: numpy.kron, C6_coeffs.json as data, QuTiP QobjEvo evaluation at sample times. Off-diagonal entries where two non-zero pulses act on one (atom,basis) are not compared; sequences with a channel left in EOM mode before the end are skipped (undefined padded tail).",
  technique="property-based testing: generated programs, differential against a reference Hamiltonian builder")
CLAIMED["C14"] = dict(
  text="Generated sample arrays x bandwidths 1.5-480 MHz against a time-domain reference Gaussian filter (M7) and the algebraic laws (linearity, integral, positivity, maximum, length, gain at the bandwidth); generated isolated pulses: reference output beyond the accounted fall time; generated programs incl. empty channels: modulated sampling succeeds and array lengths. Exploration.",
  note="Trusted: analytic kernel sigma_t = sqrt(ln2)/(sqrt2 pi bw). Pointwise agreement with M7 only for sigma_t >= 2 ns; 0.6% tolerance where the tree's circular FFT wraps.",
  technique="property-based testing: generated inputs against a reference filter + metamorphic/algebraic relations")
CLAIMED["C16"] = dict(
  text="Every waveform class x every duration 1..40 (exhaustive, 5 parameter sets) plus generated durations <= 5000 and parameters of either sign against the defining formulas evaluated with numpy; from_max_val (peak bound, local optimality); algebra, equality, indexing/slicing vs numpy; Pulse constructors and ArbitraryPhase through the sampler. Exploration + exhaustive sub-domain.",
  note="Trusted: numpy.blackman/kaiser, scipy Pchip as the documented windows/interpolant; 1e-8 tolerance on InterpolatedWaveform (rounds to 9 decimals); from_max_val bounded to durations <= 5000/20000 ns.",
  technique="property-based testing: generated + exhaustively enumerated inputs against defining formulas and algebraic laws")
CLAIMED["C12"] = dict(
  text="Generated device parameters x registers/layouts built at, just inside and just outside each geometric limit, judged by an own predicate with an unspecified band equal to the coordinate precision, incl. the reported culprits; closure of max_connectivity / with_automatic_layout under validate_register; construction + spec text of every valid parameter combination. Exploration.",
  note="Trusted: numpy float64 norms. Unspecified band: pair distance in [min-2e-6,min), radius within 1e-12 relative of the limit.",
  technique="property-based testing: boundary-biased generated inputs against a validity predicate; closure/metamorphic checks")
CLAIMED["C17"] = dict(
  text="Generated NoiseModels, devices, registers/layouts/detuning maps, EmulationConfig/QutipConfig (all default observables, states, operators) and Results: own jsonschema validation with the schema files on disk, decode(encode(x)) == x field by field, idempotent re-encode, NoiseModel<->SimConfig parameter equality, no change of existing instances when new ones are built. Exploration.",
  note="Trusted: jsonschema/referencing and the schema files; Python json float round trip; Results values compared after JSON normalisation.",
  technique="property-based testing: generated objects, round-trip and metamorphic (aliasing) oracles")
CLAIMED["C08"] = dict(
  text="Generated concrete programs with ~30% of their numeric arguments replaced by generated variable expressions (scalars, arrays, items, arithmetic and functions) and 1-3 assignments; template.build(**v) compared by canonical snapshot with the same calls issued directly with harness-evaluated values; template immutability; build(v1),build(v2),build(v1) reproducibility; mappable registers against an own register construction. Exploration.",
  note="Trusted: harness expression evaluator (Python/numpy arithmetic); call logs are not part of 'the same sequence'.",
  technique="property-based testing: generated programs, differential (parametrized build vs direct construction) + metamorphic repeat-build relations")
CLAIMED["C04"] = dict(
  text="Generated programs (all operations, calling styles, devices, register kinds; EOM/DMM/SLM/XY) rebuilt from their successful calls, plus parametrized variants with assignments: to_abstract_repr succeeds, own jsonschema validation, decoded sequence equal by canonical snapshot (device field by field, register, timeline, pulses, phase trackers, measurement, SLM, field), built sequences equal for every assignment, idempotent encoding; the same for the legacy codec on built-in and virtual devices. Exploration.",
  note="Trusted: jsonschema and the schema files; Python json float round trip. Call logs and channel order are not compared. Non-exportable constructs excluded by construction (variable CustomWaveform samples, interpolator kwargs).",
  technique="property-based testing: generated programs, round-trip oracle on canonical snapshots + independent schema validation")
CLAIMED["C18"] = dict(
  text="Generated programs on a generated device A and a device B derived by mutating any subset of channel parameters, ids, order, reusability; strict -> raises or identical timeline and samples; non-strict -> raises or the result passes the C01 limit and C02 timeline oracles on B; switch_register with moved atoms -> identical timeline. Exploration.",
  note="Trusted: the C01/C02 oracles in pv.history. DMM channels are matched by declaration position (their names derive from device ids).",
  technique="property-based testing: generated programs and device pairs, metamorphic relation between original and switched sequence")
NOT_YET = {}
CLAIMED["C15"] = dict(
  text="Generated EOM histories on channels with generated EOM configurations (limiting/controlled beams, shift coefficients, custom buffers, bandwidths): every EOM pulse equals the latest setpoint, idle detuning equals the off-detuning recomputed with own light-shift arithmetic (closest allowed option), buffer lengths and positions; drift correction by a metamorphic twin (same pulses on an EOM-free channel with zero idle detuning) through the QuTiP emulator within 5e-4. Exploration.",
  note="Trusted: light-shift formulas of the RydbergEOM documentation; Pulse.fall_time (C14); QuTiP solver at tolerance 1e-10. disable_eom_mode with a custom buffer time is only checked for its length.",
  technique="property-based testing: generated histories against a reference EOM model + metamorphic twin on the emulator")
CLAIMED["C11"] = dict(
  text="Generated small sequences (1-3 atoms, every basis combination, DMM/SLM, idle periods) x evaluation-time settings x sampling rates x noise models through QutipEmulator: norm / trace / Hermiticity / positivity of every stored state; generated Rabi experiments per basis against sin^2(Omega t/2) and zero drive; QutipResult/QutipState bitstring distributions against an own marginalisation for every basis incl. 3-level and leakage states, detection-error and state-preparation-error rates (7 sigma); legacy emulator vs QutipBackendV2 states at the same times; every duration 4..3000 ns on the V2 backend. Exploration + exhaustive duration sweep.",
  note="Trusted: QuTiP solvers at their default tolerances (tolerance 1e-5 + 3e-6/ns on norm/trace/fidelity; Rabi 1e-2), numpy RNG seeded per case with 7-sigma statistical bounds. Sequences measured in a basis that carries no pulse are excluded (the emulator refuses them).",
  technique="property-based testing: generated sequences/configurations with invariant, analytic, statistical and differential (legacy vs V2) oracles")
CLAIMED["C20"] = dict(
  text="Generated states (kets and density matrices, 2-4 levels over every documented eigenbasis, 1-4 qudits) x random Hamiltonians: every default observable's apply() against its numpy definition, BitStrings against the own marginalised distribution (7 sigma); generated operator representations / amplitude maps against numpy.kron and matrix algebra; generated sequences x observable lists with own/default evaluation times x noise models through QutipBackendV2.run(): stored times, one value per time, values recomputed from the state stored at the same time, retrieval by observable/tag/attribute. Exploration.",
  note="Trusted: numpy linear algebra; H(t) = get_hamiltonian(t*T) of a noiseless emulator (C05 judges it); numpy RNG seeded per case, 7-sigma bounds. Under default_evaluation_times='Full' only the final time, the other observables' times, the count and the absence of holes are required (the step grid is not specified).",
  technique="property-based testing: generated states/operators/configurations against reference definitions (numpy), differential recomputation of stored results")
