CLAIMED = {
 "C19": dict(
  text="Generated search (Hypothesis) over coordinate sets, permutations, trap selections, qubit-id lists and weight vectors against an independent sort/lookup oracle, plus exhaustive enumeration of all permutations of fixed 2..6-point sets. Searched, not proved: a violation outside the generated classes can be missed.",
  note="Trusted: numpy.round/sorted as the canonical order; coordinate sets colliding after rounding are excluded by construction.",
  technique="property-based testing (Hypothesis strategies + exhaustive permutation enumeration) against a reference model"),
}
NOT_YET = {}
