"""C19 - layouts number traps canonically; registers, maps and layouts agree."""
from __future__ import annotations

import itertools

import math

import numpy as np
from hypothesis import strategies as st

from pv.engine import Clause, Ctx

RULE = (
    "Hypothesis-generated coordinate sets (2D/3D; grid points, random points, "
    "ties in x, near-ties x+-{4e-7,6e-7} around the 1e-6 rounding, +-0.0) with a "
    "generated permutation, trap-id selections, qubit-id lists and weight "
    "vectors; plus all permutations of fixed 2..6-point sets (exhaustive). "
    "A case is non-trivial when it has >=3 traps and at least one tie in x "
    "after rounding (so that the y/z tie-break and the rounding are "
    "observable); distinct = distinct canonical JSON of the case."
)
ASSUMPTIONS = [
    "numpy.round(decimals=6) is the rounding the statement refers to",
    "coordinate sets whose points collide after rounding to 1e-6 um are "
    "excluded by construction (two traps closer than the coordinate precision)",
    "detuning-map traps are >= 0.1 um apart (numpy.isclose's relative "
    "tolerance in the tree makes closer traps indistinguishable at 50 um)",
]

PERT = [0.0, 0.0, 0.0, 4e-7, -4e-7, 6e-7, -6e-7, 1e-9, -1e-9]


@st.composite
def coord_sets(draw, min_n=1, max_n=9, spacing_min=None):
    dim = draw(st.sampled_from([2, 2, 3]))
    n = draw(st.integers(min_n, max_n))
    kind = draw(st.sampled_from(["grid", "grid", "random", "mixed"]))
    whole = draw(st.integers(0, 3)) == 0  # grid points exactly on whole numbers
    pts = []
    seen = set()
    tries = 0
    while len(pts) < n and tries < 200:
        tries += 1
        if kind == "grid" or (kind == "mixed" and draw(st.booleans())):
            base = [draw(st.integers(-3, 3)) * 5.0 for _ in range(dim)]
        else:
            base = [
                round(draw(st.floats(-40, 40, allow_nan=False)), 1)
                for _ in range(dim)
            ]
        key = tuple(base)
        if key in seen:
            continue
        seen.add(key)
        p = base if kind == "grid" and whole else [b + draw(st.sampled_from(PERT)) for b in base]
        if draw(st.integers(0, 9)) == 0:
            p = [(-0.0 if v == 0.0 else v) for v in p]
        pts.append(p)
    perm = draw(st.permutations(list(range(len(pts)))))
    return {"dim": dim, "coords": pts, "perm": list(perm)}


def oracle_sorted(coords):
    arr = np.round(np.array(coords, dtype=float), 6)
    rows = sorted(tuple(float(v) for v in r) for r in arr)
    return np.array(rows, dtype=float)


def has_x_tie(coords):
    xs = np.round(np.array(coords, dtype=float)[:, 0], 6)
    return len(set(xs.tolist())) < len(xs)


def _mk_layout(ctx, coords, clause):
    from pulser.register.register_layout import RegisterLayout

    return ctx.must(lambda: RegisterLayout(coords), clause, "RegisterLayout()")


def check_perm(case, ctx: Ctx):
    C = "C19.numbering"
    coords = case["coords"]
    perm = case["perm"]
    ctx.label(f"dim{case['dim']}", f"n{min(len(coords), 6)}")
    la = _mk_layout(ctx, coords, C)
    lb = _mk_layout(ctx, [coords[i] for i in perm], C)
    exp = oracle_sorted(coords)
    ctx.nontrivial(len(coords) >= 3 and has_x_tie(coords))
    if has_x_tie(coords):
        ctx.label("x_tie")
    for name, lay in (("given", la), ("permuted", lb)):
        td = ctx.must(lambda: lay.traps_dict, C, "traps_dict")
        got = np.array([td[i] for i in range(len(td))], dtype=float)
        if sorted(td.keys()) != list(range(len(coords))):
            ctx.fail(C, "ids_not_0..n-1", f"{sorted(td.keys())}")
        if got.shape != exp.shape or not np.array_equal(got, exp):
            ctx.fail(
                C, f"order:{name}",
                f"trap coordinates by id {got.tolist()} != canonical "
                f"(x,y,z)-sorted rounded {exp.tolist()}",
            )
        if not np.array_equal(lay.coords, exp):
            ctx.fail(C, "coords!=traps_dict", "")
        if lay.number_of_traps != len(coords):
            ctx.fail(C, "number_of_traps", "")
        if lay.dimensionality != case["dim"]:
            ctx.fail(C, "dimensionality", "")
    # the same set given as integers (Python ints, int32) instead of floats is the same set
    if all(float(v).is_integer() and not (v == 0 and math.copysign(1.0, v) < 0) for p_ in coords for v in p_):
        ctx.label("integer_valued_coordinates")
        ints = [[int(v) for v in p_] for p_ in coords]
        for what, alt in (("python_int", ints), ("int32", np.array(ints, dtype=np.int32))):
            lc = _mk_layout(ctx, alt, C)
            if not (la == lc) or not (lc == la) or hash(la) != hash(lc):
                ctx.fail(C, f"eq_depends_on_number_type:{what}",
                         f"RegisterLayout({coords}) != the same coordinates given as {what}")
            if la.static_hash() != lc.static_hash() or repr(la) != repr(lc):
                ctx.fail(C, f"static_hash_depends_on_number_type:{what}", f"{coords}")
    if not (la == lb) or not (lb == la):
        ctx.fail(C, "eq_order_dependent", f"{coords} vs perm {perm}")
    if la.static_hash() != lb.static_hash():
        ctx.fail(C, "static_hash_order_dependent", f"{coords} perm {perm}")
    if hash(la) != hash(lb) or repr(la) != repr(lb):
        ctx.fail(C, "hash_repr_order_dependent", "")
    # a different set must not be equal
    if len(coords) >= 2:
        ld = _mk_layout(ctx, coords[:-1], C)
        if ld == la or ld.static_hash() == la.static_hash():
            ctx.fail(C, "eq_too_weak", "layout equals a strict subset")
    # ... nor may a set that differs by more than the 1e-6 um precision (one trap moved by 2e-5 um)
    moved = [list(p_) for p_ in coords]
    moved[0][0] += 2e-5
    if len({tuple(np.round(np.array(p_, dtype=float), 6)) for p_ in moved}) == len(moved):
        lm = _mk_layout(ctx, moved, C)
        if lm == la or la == lm or lm.static_hash() == la.static_hash():
            ctx.fail(C, "eq_too_weak:nearby_set", f"a trap moved by 2e-5 um: layouts still equal ({coords[0]})")
    # the numbering depends only on the coordinates the layout was made from: scratch work on
    # arrays it hands out (centring for a plot, scaling) is not a change of the layout
    h0 = la.static_hash()
    for what, get in (("coords", lambda: la.coords), ("sorted_coords", lambda: la.sorted_coords),
                      ("traps_dict[0]", lambda: la.traps_dict[0])):
        arr = get()
        try:
            arr += 1.25
        except (ValueError, TypeError):  # read-only array: fine too
            continue
        td = la.traps_dict
        got = np.array([td[i] for i in range(len(td))], dtype=float)
        if not np.array_equal(got, exp) or la.static_hash() != h0 or not (la == lb):
            ctx.fail(C, f"layout_changed_by_writing_to:{what}",
                     f"after `x = layout.{what}; x += 1.25` the layout's traps are {got.tolist()} (were {exp.tolist()})")


@st.composite
def register_cases(draw):
    cs = draw(coord_sets(min_n=1, max_n=9))
    n = len(cs["coords"])
    k = draw(st.integers(1, n))
    ids = draw(st.permutations(list(range(n))))[:k]
    qkind = draw(st.sampled_from(["default", "str", "str_shuffled"]))
    if qkind == "default":
        qids = None
    else:
        pool = ["a", "b", "c", "q0", "q1", "q10", "q2", "x", "7", "atom"]
        qids = draw(st.permutations(pool))[:k]
    cs.update(trap_ids=list(ids), qubit_ids=qids)
    return cs


def check_register(case, ctx: Ctx):
    C = "C19.define_register"
    coords = case["coords"]
    ids = case["trap_ids"]
    qids = case["qubit_ids"]
    ctx.label(f"dim{case['dim']}", "custom_ids" if qids else "default_ids")
    lay = _mk_layout(ctx, [coords[i] for i in case["perm"]], C)
    exp = oracle_sorted(coords)
    ctx.nontrivial(len(coords) >= 3 and has_x_tie(coords) and len(ids) >= 2)
    reg = ctx.must(
        lambda: lay.define_register(*ids, qubit_ids=qids), C, "define_register"
    )
    names = list(qids) if qids else [f"q{i}" for i in range(len(ids))]
    if list(reg.qubit_ids) != names:
        ctx.fail(C, "qubit_ids", f"{reg.qubit_ids} != {names}")
    qd = reg.qubits
    for k, (name, tid) in enumerate(zip(names, ids)):
        got = np.array(qd[name].as_array() if hasattr(qd[name], "as_array") else qd[name], dtype=float)
        if not np.array_equal(got, exp[tid]):
            ctx.fail(
                C, "qubit_not_on_trap",
                f"qubit {name} (k={k}) at {got.tolist()} but trap {tid} is "
                f"{exp[tid].tolist()}",
            )
    if reg.layout != lay:
        ctx.fail(C, "register.layout", "")
    back = ctx.must(
        lambda: lay.get_traps_from_coordinates(
            *[np.array(qd[nm].as_array() if hasattr(qd[nm], "as_array") else qd[nm]) for nm in names]
        ),
        C, "get_traps_from_coordinates",
    )
    if list(back) != list(ids):
        ctx.fail(C, "lookup_roundtrip", f"{back} != {ids}")
    # lookup from the *unrounded* given coordinates as well
    by_val = {tuple(r): i for i, r in enumerate(exp.tolist())}
    given = [coords[i] for i in range(len(coords))]
    back2 = ctx.must(
        lambda: lay.get_traps_from_coordinates(*given), C,
        "get_traps_from_coordinates(given)",
    )
    exp2 = [by_val[tuple(np.round(np.array(p, dtype=float), 6).tolist())] for p in given]
    if list(back2) != exp2:
        ctx.fail(C, "lookup_given", f"{back2} != {exp2}")
    # ids that name no trap (negative, or beyond the last): refused, or else the same rule holds
    # (the qubit sits on "that trap" and looking it up gives the same id back)
    n = len(coords)
    for bad in (-1, -n, n, n + 2):
        claim = list(ids[:-1]) + [bad]
        try:
            rb = lay.define_register(*claim, qubit_ids=qids)
        except Exception:  # noqa: BLE001 - refusing is the documented outcome
            ctx.label("invalid_trap_id_refused")
            continue
        try:
            pos = [np.array(rb.qubits[nm].as_array() if hasattr(rb.qubits[nm], "as_array") else rb.qubits[nm])
                   for nm in names]
            backb = list(lay.get_traps_from_coordinates(*pos))
        except Exception as e:  # noqa: BLE001
            backb = f"{type(e).__name__}"
        if backb != claim:
            ctx.fail(C, f"invalid_trap_id_accepted:{'negative' if bad < 0 else 'too_large'}",
                     f"define_register{tuple(claim)} on {n} traps accepted; lookup gives {backb}")
    # a register built directly with layout= / trap_ids=: either refused or its recorded trap
    # ids are the ones the layout finds at its qubits' positions (same ids in another order,
    # or ids shifted by one, must not be recorded as given)
    if len(ids) >= 2:
        from pulser import Register, Register3D

        cls = Register3D if case["dim"] == 3 else Register
        qpos = {nm: np.array(qd[nm].as_array() if hasattr(qd[nm], "as_array") else qd[nm], dtype=float) for nm in names}
        rot = list(ids[1:]) + [ids[0]]
        other = [t for t in range(len(coords)) if t not in ids]
        variants = [("rotated", rot)]
        if other:
            variants.append(("other_trap", list(ids[:-1]) + [other[0]]))
        for what, claim in variants:
            try:
                r2 = cls(qpos, layout=lay, trap_ids=tuple(claim))
            except Exception:  # noqa: BLE001 - refusing is the documented outcome
                ctx.label("mismatched_trap_ids_refused")
                continue
            rec = list(r2._layout_info.trap_ids)
            found = list(lay.get_traps_from_coordinates(*[qpos[nm] for nm in names]))
            if rec != found:
                ctx.fail(C, f"register_with_wrong_trap_ids_accepted:{what}",
                         f"qubits on traps {found} accepted with trap_ids={claim} (recorded {rec})")


@st.composite
def mappable_cases(draw):
    cs = draw(coord_sets(min_n=2, max_n=13))
    n = len(cs["coords"])
    nq = draw(st.integers(1, n))
    prefix = draw(st.sampled_from(["q", "a", ""]))
    if draw(st.integers(0, 2)) == 0:
        # ids declared explicitly, in an order that is not the sorted one
        pool = ["ctrl", "anc", "tgt", "b", "a", "q10", "q2", "Z", "z", "10", "9", "x y", "q", ""]
        cs["ids"] = list(draw(st.permutations(pool)))[:nq]
    k = draw(st.integers(1, nq))
    traps = draw(st.permutations(list(range(n))))[:k]
    # mapping must be over the first k declared ids, given in any order
    order = draw(st.permutations(list(range(k))))
    cs.update(n_qubits=nq, prefix=prefix, k=k, traps=list(traps), order=list(order))
    return cs


def check_mappable(case, ctx: Ctx):
    C = "C19.mappable"
    coords = case["coords"]
    lay = _mk_layout(ctx, [coords[i] for i in case["perm"]], C)
    exp = oracle_sorted(coords)
    nq, k = case["n_qubits"], case["k"]
    ctx.label(f"dim{case['dim']}", "partial" if k < nq else "full")
    ctx.nontrivial(len(coords) >= 3 and has_x_tie(coords) and k >= 2)
    if case.get("ids"):
        from pulser.register.mappable_reg import MappableRegister

        mreg = ctx.must(lambda: MappableRegister(lay, *case["ids"]), C, "MappableRegister")
        declared = list(case["ids"])
        ctx.label("explicit_ids")
    else:
        mreg = ctx.must(
            lambda: lay.make_mappable_register(nq, prefix=case["prefix"]), C,
            "make_mappable_register",
        )
        declared = [f"{case['prefix']}{i}" for i in range(nq)]
    if declared[:k] != sorted(declared[:k]):
        ctx.label("declared_order_not_sorted")
    if list(mreg.qubit_ids) != declared:
        ctx.fail(C, "declared_ids", f"{mreg.qubit_ids}")
    mapping = {declared[i]: case["traps"][i] for i in case["order"]}
    reg = ctx.must(lambda: mreg.build_register(mapping), C, "build_register")
    if list(reg.qubit_ids) != declared[:k]:
        ctx.fail(
            C, "declared_order",
            f"built ids {reg.qubit_ids} != declared order {declared[:k]}",
        )
    qd = reg.qubits
    for i in range(k):
        got = np.array(qd[declared[i]].as_array(), dtype=float)
        if not np.array_equal(got, exp[case["traps"][i]]):
            ctx.fail(
                C, "qubit_not_on_mapped_trap",
                f"{declared[i]} at {got.tolist()} != trap "
                f"{case['traps'][i]} {exp[case['traps'][i]].tolist()}",
            )
    idx = ctx.must(lambda: mreg.find_indices(declared[:k][::-1]), C, "find_indices")
    if idx != list(range(k))[::-1]:
        ctx.fail(C, "find_indices", f"{idx}")


@st.composite
def detmap_cases(draw):
    n = draw(st.integers(1, 8))
    pts = []
    seen = set()
    while len(pts) < n:
        b = (draw(st.integers(-4, 4)) * 4.0, draw(st.integers(-4, 4)) * 4.0)
        if b in seen:
            continue
        seen.add(b)
        pts.append([b[0] + draw(st.sampled_from(PERT)), b[1] + draw(st.sampled_from(PERT))])
    weights = [
        draw(st.sampled_from([0.0, 1.0, 0.5, 0.25, 0.1, 0.75])
             | st.floats(0, 1, allow_nan=False))
        for _ in range(n)
    ]
    perm = draw(st.permutations(list(range(n))))
    # qubits: on a trap (exact / perturbed) or far from all
    nq = draw(st.integers(1, 6))
    qubits = []
    for j in range(nq):
        kind = draw(st.sampled_from(["on", "on", "near", "off"]))
        if kind == "off":
            pos = [draw(st.integers(-4, 4)) * 4.0 + 2.0, draw(st.integers(-4, 4)) * 4.0 + 1.0]
            qubits.append({"pos": pos, "trap": None})
        else:
            t = draw(st.integers(0, n - 1))
            d = [0.0, 0.0] if kind == "on" else [draw(st.sampled_from([3e-7, -3e-7, 0.0])) for _ in range(2)]
            base = np.round(np.array(pts[t]), 6).tolist() if draw(st.booleans()) else pts[t]
            qubits.append({"pos": [base[0] + d[0], base[1] + d[1]], "trap": t})
    return {"coords": pts, "weights": weights, "perm": list(perm), "qubits": qubits}


def check_detmap(case, ctx: Ctx):
    from pulser.register.weight_maps import DetuningMap

    C = "C19.detuning_map"
    pts, w, perm = case["coords"], case["weights"], case["perm"]
    qubits = {f"q{j}": np.array(q["pos"]) for j, q in enumerate(case["qubits"])}
    expected = {
        f"q{j}": (0.0 if q["trap"] is None else float(w[q["trap"]]))
        for j, q in enumerate(case["qubits"])
    }
    ctx.nontrivial(len(pts) >= 3 and len(set(w)) >= 2 and has_x_tie(pts))
    ctx.label("has_off" if any(q["trap"] is None for q in case["qubits"]) else "all_on")
    dm1 = ctx.must(lambda: DetuningMap(pts, w), C, "DetuningMap()")
    dm2 = ctx.must(
        lambda: DetuningMap([pts[i] for i in perm], [w[i] for i in perm]), C,
        "DetuningMap(permuted)",
    )
    for name, dm in (("given", dm1), ("permuted", dm2)):
        got = ctx.must(lambda: dm.get_qubit_weight_map(qubits), C, "get_qubit_weight_map")
        if list(got.keys()) != list(qubits.keys()):
            ctx.fail(C, "keys", "")
        for q in qubits:
            if abs(got[q] - expected[q]) > 1e-12:
                ctx.fail(
                    C, f"weight:{name}",
                    f"qubit {q} at {qubits[q].tolist()} got weight {got[q]}, "
                    f"trap weight is {expected[q]}",
                )
    if not (dm1 == dm2) or dm1.static_hash() != dm2.static_hash():
        ctx.fail(C, "eq_hash_order_dependent", "")
    # the same map asked again about the same qubit names sitting elsewhere (another register
    # from the same layout, another mapping): the weight follows the position, not the name
    names = list(qubits)
    if len(names) >= 2:
        rot = {names[i]: qubits[names[(i + 1) % len(names)]] for i in range(len(names))}
        got_r = ctx.must(lambda: dm1.get_qubit_weight_map(rot), C, "get_qubit_weight_map(second register)")
        for i, q in enumerate(names):
            e = expected[names[(i + 1) % len(names)]]
            if abs(got_r[q] - e) > 1e-12:
                ctx.fail(C, "weight:same_names_other_positions",
                         f"second query: qubit {q} now at {rot[q].tolist()} got weight {got_r[q]}, trap weight is {e}")
    # sorted_weights follow the canonical trap order
    exp = oracle_sorted(pts)
    order = [
        int(np.argwhere(np.all(np.round(np.array(pts), 6) == r, axis=1))[0][0])
        for r in exp
    ]
    if not np.array_equal(dm2.sorted_weights, np.array(w)[order]):
        ctx.fail(C, "sorted_weights", "")
    # a layout-defined map gives the same answer
    from pulser.register.register_layout import RegisterLayout

    lay = ctx.must(lambda: RegisterLayout([pts[i] for i in perm]), C, "RegisterLayout")
    dm3 = ctx.must(
        lambda: lay.define_detuning_map({i: w[order[i]] for i in range(len(pts))}),
        C, "layout.define_detuning_map",
    )
    got3 = ctx.must(lambda: dm3.get_qubit_weight_map(qubits), C, "get_qubit_weight_map")
    for q in qubits:
        if abs(got3[q] - expected[q]) > 1e-12:
            ctx.fail(C, "weight:layout_defined", f"{q}: {got3[q]} != {expected[q]}")
    if dm3 != dm1:
        ctx.fail(C, "layout_defined_map_differs", "")


# ---- exhaustive: all permutations of fixed small sets (n <= 6)
_FIXED = [
    [[0.0, 0.0], [0.0, 5.0]],
    [[0.0, 0.0], [0.0, 5.0], [5.0, 0.0]],
    [[1.0000004, 3.0], [1.0, 5.0], [0.9999996, 4.0], [2.0, 0.0]],
    [[0.0, 0.0, 1.0], [0.0, 0.0, -1.0], [0.0, 1.0, 0.0], [-1.0, 5.0, 5.0], [0.0, 1.0, -3.0]],
    [[5.0, 5.0], [5.0, -5.0], [-5.0, 5.0], [-5.0, -5.0], [5.0, 0.0], [5.0000004, -1.0]],
    [[0.0, 2.0, 0.0], [0.0, 2.0, 1.0], [0.0, 1.0, 5.0], [4e-7, 0.0, 0.0], [-4e-7, 0.5, 0.0], [1.0, 0.0, 0.0]],
]


def enum_perms(tier):
    sets = _FIXED if tier == "thorough" else _FIXED[:5]
    for cs in sets:
        for perm in itertools.permutations(range(len(cs))):
            yield {"dim": len(cs[0]), "coords": cs, "perm": list(perm)}


CLAUSES = [
    Clause("numbering", check_perm, gen=lambda t: coord_sets(),
           budget={"quick": (4, 600), "thorough": (16, 8000)},
           doc="trap ids/eq/hash independent of input order; canonical (x,y,z) order after rounding"),
    Clause("numbering_allperms", check_perm, enum=enum_perms,
           budget={"quick": (2, 0), "thorough": (4, 0)}, exhaustive=True,
           doc="all permutations of fixed 2..6-point sets"),
    Clause("define_register", check_register, gen=lambda t: register_cases(),
           budget={"quick": (4, 500), "thorough": (16, 6000)}),
    Clause("mappable", check_mappable, gen=lambda t: mappable_cases(),
           budget={"quick": (3, 400), "thorough": (16, 5000)}),
    Clause("detuning_map", check_detmap, gen=lambda t: detmap_cases(),
           budget={"quick": (3, 400), "thorough": (16, 5000)}),
]
