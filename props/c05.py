"""C05 - the emulated Hamiltonian equals the documented formula."""
from __future__ import annotations

import numpy as np
from hypothesis import strategies as st

from pv import gen, history, model_ham as mh
from pv.engine import Clause, Ctx

RULE = (
    "Hypothesis-generated programs on 1-4 atoms (2D/3D, shuffled ids, jittered "
    "geometry, Rydberg levels 50-100): global/local channels, one to three "
    "bases, several channels per basis, DMM with non-uniform weights, XY mode "
    "with generated magnetic field and SLM mask, EOM blocks. For every integer "
    "sample time t (all when T<=300 ns, else 150 drawn + slot boundaries +-1) "
    "QutipEmulator.get_hamiltonian(t) is compared entry-wise (1e-9 relative) "
    "with M5, a numpy.kron construction of docs/source/conventions.md from the "
    "slot list; Hermiticity 1e-12. Non-trivial: >=2 atoms with non-zero "
    "interaction and >=1 local or DMM-weighted term; distinct = distinct "
    "canonical JSON."
)
ASSUMPTIONS = [
    "numpy.kron, C6_coeffs.json as data, QuTiP QobjEvo evaluation at the sample times",
    "off-diagonal entries of an (atom, basis) on which two non-zero pulses act at "
    "once are not compared (no documented formula); diagonal terms always are",
    "state space = states of the bases that carry a non-zero pulse (documented reduction)",
]


def profile(tier):
    ck = {"bandwidth": [None], "simple_timing": True, "eom": False}
    dev = st.one_of(
        gen.device_specs(n_channels=(1, 4), allow_builtin=True, chan_kw=ck),
        gen.device_specs(n_channels=(1, 4), allow_builtin=False, chan_kw=ck),
        gen.device_specs(mode="xy", n_channels=(1, 2), allow_builtin=True, chan_kw=ck),
        gen.device_specs(n_channels=(1, 3), allow_builtin=False,
                         chan_kw={"bandwidth": [8, 40], "simple_timing": True, "eom": True}),
    )
    def emulable(d):
        # the emulator refuses a DMM (ground-rydberg basis) on a device without a Rydberg channel
        if d["type"] != "builtin" and not any(c["kind"] == "Rydberg" for c in d["channels"]):
            d = dict(d, dmms=[], supports_slm_mask=False)
        return d

    dev = dev.map(emulable)
    return {
        "fault_pct": 2, "min_ops": 6, "max_ops": 16 if tier == "quick" else 24,
        "min_channels": 2, "measure": False, "magfield": True,
        "weights": {"declare": 7, "declare_more": 2, "add": 16, "align": 1,
                    "delay": 1, "phase_shift": 2, "target": 4, "eom": 3,
                    "add_dmm": 5, "detmap": 3, "slm": 2},
        "device": dev,
        "register": gen.register_specs(n=(1, 4), layout=False, int_ids=True),
    }


def profile_xy(tier):
    """XY mode with an SLM mask, one or two global microwave channels, delays before the first
    pulses: the mask lasts until the end of the first pulse of the channel that starts first."""
    p = profile(tier)
    ck = {"bandwidth": [None], "simple_timing": True, "eom": False}
    return dict(p, min_ops=5, max_ops=12, min_channels=1,
                weights={"declare": 7, "declare_more": 3, "add": 10, "align": 1, "delay": 8,
                         "phase_shift": 1, "target": 0, "eom": 0, "add_dmm": 0, "detmap": 0, "slm": 8},
                device=gen.device_specs(mode="xy", n_channels=(1, 2), allow_builtin=True, chan_kw=ck),
                register=gen.register_specs(n=(2, 4), layout=False, int_ids=True))


@st.composite
def cases(draw, tier, xy=False):
    return dict(prog=draw(gen.programs(profile_xy(tier) if xy else profile(tier))),
                tsel=draw(st.integers(0, 2**31 - 1)))


def check(case, ctx: Ctx):
    from pulser_simulation import QutipEmulator

    C = "C05.hamiltonian"
    w = history.Walker(case["prog"], ctx, set()).run()
    seq = w.seq
    if w.aborted or seq.is_parametrized() or not seq._schedule or seq.is_register_mappable():
        ctx.label("not_emulable")
        return
    if any(not cs.slots for cs in seq._schedule.values()):
        ctx.label("local_channel_never_targeted")  # nothing to emulate on it
        return
    dev_bases = {c.basis for c in seq.device.channels.values()}
    if any(cs.channel_obj.basis not in dev_bases for cs in seq._schedule.values()):
        ctx.label("dmm_on_device_without_rydberg_channel")  # refused by the emulator
        return
    T = seq.get_duration()
    if T < 5 or T > 6000:  # the emulator documents a minimum of 4 samples
        ctx.label("empty" if T < 5 else "too_long")
        return
    M = mh.HamModel(seq)
    if any(c.in_eom and c.T < T for c in M.chans.values()):
        # a channel left in EOM mode is padded with its off-detuning up to the
        # sequence end; the statement does not define that tail per atom
        ctx.label("eom_tail_unspecified")
        return
    sim = ctx.must(lambda: QutipEmulator.from_sequence(seq), C, "QutipEmulator.from_sequence")
    # documented ordering of the state space
    if list(sim.basis) != M.states:
        ctx.fail(C, "state_space", f"emulator basis {list(sim.basis)} vs documented {M.states} "
                                   f"(used bases {sorted(mh.used_bases(M.chans))})")
    for k, s in enumerate(M.states):
        v = np.asarray(sim.basis[s].full()).reshape(-1)
        e = np.zeros(M.dim)
        e[k] = 1
        if not np.array_equal(v, e):
            ctx.fail(C, "state_vectors", f"|{s}> = {v}")
    # times
    if T <= 300:
        times = list(range(T))
    else:
        rs = np.random.RandomState(case["tsel"])
        times = set(rs.randint(0, T, size=150).tolist())
        for c in M.chans.values():
            for s in c.slots:
                for t in (s.ti - 1, s.ti, s.ti + 1, s.tf - 1, s.tf, s.tf + 1):
                    if 0 <= t < T:
                        times.add(int(t))
        if M.mask_end:
            times |= {t for t in (M.mask_end - 1, M.mask_end, M.mask_end + 1) if 0 <= t < T}
        times = sorted(times)
    # the padded tail of a channel left in EOM mode carries its off-detuning in
    # the tree; the statement does not define it per atom -> not compared
    tails = [c.T for c in M.chans.values() if c.in_eom and c.T < T]
    if tails:
        times = [t for t in times if t < min(tails)]
    inter = M.interaction(False)
    has_int = M.n >= 2 and np.any(np.abs(inter) > 1e-12)
    local_term = any((c.addressing == "Local" or c.is_dmm) and c.pulses for c in M.chans.values())
    ctx.nontrivial(bool(has_int and (local_term or M.masked)))
    ctx.label(f"atoms={M.n}", "xy" if M.in_xy else "ising", f"dim={M.dim}")
    if M.masked:
        ctx.label("slm_mask")
    if any(c.is_dmm and c.pulses for c in M.chans.values()):
        ctx.label("dmm")
    for t in times:
        Ht = ctx.must(lambda: sim.get_hamiltonian(t).full(), C, "get_hamiltonian")
        Hm, ign = M.at(t)
        if Ht.shape != Hm.shape:
            ctx.fail(C, "shape", f"{Ht.shape} vs {Hm.shape}")
        herm = np.max(np.abs(Ht - Ht.conj().T))
        scale = 1 + np.max(np.abs(Ht))
        if herm > 1e-12 * scale:
            # QuTiP's compress() (called by the emulator) merges a term and its
            # hermitian conjugate when their coefficient arrays are np.allclose
            # (rtol 1e-5): nearly-real coefficients (|phase| <~ 1e-5) then lose
            # their conjugation -> H[r,c] == H[c,r] instead of conj
            # (only the offending entries need to be symmetric: other atoms may carry
            #  genuinely complex, correctly conjugated terms)
            bad = np.abs(Ht - Ht.conj().T) > 1e-12 * scale
            sym = np.max(np.abs((Ht - Ht.T)[bad])) <= 1e-12 * scale
            disc = ("not_hermitian:nearly_real_coefficient_merged_with_its_conjugate"
                    if (sym and herm <= 3e-5 * scale) else "not_hermitian")
            ctx.fail(C, disc, f"t={t}: max|H-H^dagger| = {herm}", cont=True)
            break
        diff = np.abs(Ht - Hm)
        diff[ign] = 0.0
        tol = 1e-9 * (1 + np.max(np.abs(Hm)))
        if np.max(diff) > tol:
            r, c_ = np.unravel_index(int(np.argmax(diff)), diff.shape)
            # classify the entry: diagonal / one-site (drive) / two-site (exchange)
            def digits(x):
                out = []
                for _ in range(M.n):
                    out.append(x % M.dim)
                    x //= M.dim
                return out[::-1]
            nd = sum(1 for a_, b_ in zip(digits(r), digits(c_)) if a_ != b_)
            kind = {0: "diagonal", 1: "offdiagonal:drive"}.get(nd, "offdiagonal:exchange")
            if M.masked and abs(t - M.mask_end) <= 1 and nd != 1:
                kind += ":slm_mask_boundary"
            multi = any(
                sum(1 for c in M.chans.values() if c.basis == b and c.pulses) >= 2
                for b in M.atoms)
            if nd == 1 and multi:
                kind += ":several_channels_one_basis"
            # the emulator's compress() also merges two DIFFERENT terms whose coefficient
            # arrays are np.allclose (rtol 1e-5) but not equal, e.g. a global detuning of
            # -125.66370574 and a DMM detuning of -125.66370614: error <= 1e-5 relative
            arrs = []
            for c in M.chans.values():
                Tc = len(c.det)
                pad = lambda a: np.concatenate([a, np.zeros(M.T - Tc)]) if Tc < M.T else a  # noqa: E731
                if c.is_dmm:
                    arrs += [pad(w_ * c.det) for w_ in set(c.weights.values()) if w_]
                else:
                    arrs += [pad(c.det), pad(c.amp)]
            arrs = [a for a in arrs if np.any(a)]
            near = any(a.shape == b_.shape and not np.array_equal(a, b_) and np.allclose(a, b_, rtol=1e-5, atol=1e-8)
                       for i, a in enumerate(arrs) for b_ in arrs[i + 1:])
            if near and np.max(diff) <= 3e-5 * (1 + np.max(np.abs(Hm))) * M.n:
                kind = kind.split(":")[0] + ":nearly_equal_coefficients_merged"
            ctx.fail(C, kind,
                     f"t={t}: H[{r},{c_}] emulator {Ht[r, c_]} vs documented {Hm[r, c_]} "
                     f"(basis {M.states}, atoms {M.qids})", cont=True)
            break


CLAUSES = [
    Clause("hamiltonian", check, gen=lambda t: cases(t),
           budget={"quick": (16, 60), "thorough": (16, 2500)},
           doc="get_hamiltonian(t) vs the M5 construction at every selected sample time"),
    Clause("xy_slm_mask", check, gen=lambda t: cases(t, xy=True),
           budget={"quick": (16, 25), "thorough": (16, 800)},
           doc="the same for XY programs with an SLM mask, delays before the first pulses, 1-2 global channels"),
]
