"""C08 - building a parametrized sequence equals direct construction."""
from __future__ import annotations

import numpy as np
from hypothesis import strategies as st

from pv import build, gen, gen_param, snapshot as snap
from pv.engine import Clause, Ctx

RULE = (
    "A Hypothesis-generated concrete program; ~30% of its numeric arguments "
    "(durations, amplitudes, detunings, phases, waveform parameters, EOM "
    "setpoints, index targets, whole value arrays) replaced by variable "
    "expressions (scalars, array variables, items; + - * / // % ** neg abs ceil "
    "floor round sqrt exp sin tanh) whose first assignment reproduces the "
    "original values; 1-3 assignments; concrete and mappable registers (with a "
    "generated trap mapping). Oracle: snapshot(template.build(**v)) == "
    "snapshot(the same successful calls issued directly with the evaluated "
    "values); both must raise or both succeed; template unchanged by builds; "
    "build(v1), build(v2), build(v1) -> first == third. Non-trivial: >=1 "
    "expression with >=2 operators or >=2 different assignments, and the "
    "sequence really is parametrized; distinct = distinct canonical JSON."
)
ASSUMPTIONS = [
    "expression evaluation for the direct construction is done by the harness (pv.build.ev_expr) with Python/numpy arithmetic",
]


def profile(tier):
    return {
        "fault_pct": 2, "min_ops": 4, "max_ops": 18 if tier == "quick" else 30,
        "min_channels": 1, "stop_at_measure_p": 9,
        "weights": {"declare": 6, "declare_more": 2, "add": 12, "align": 1, "delay": 3,
                    "phase_shift": 3, "target": 4, "eom": 4, "add_dmm": 3, "detmap": 1,
                    "slm": 1, "measure": 1},
        "device": gen.device_specs(n_channels=(1, 3), allow_builtin=True,
                                   chan_kw={"bandwidth": [None, None, 8, 40]}),
        "register": st.one_of(gen.register_specs(n=(1, 5)),
                              gen.register_specs(n=(1, 5), int_ids=True),
                              gen.register_specs(n=(2, 5), mappable=True, dim=2)),
    }


def profile_eom(tier):
    """EOM-heavy templates (enable / modify / pulses / disable, with and without phase-drift
    correction) whose first calls are often concrete: building replays them."""
    p = profile(tier)
    return dict(p, min_ops=6, max_ops=20,
                weights={"declare": 6, "declare_more": 1, "add": 6, "align": 1, "delay": 2,
                         "phase_shift": 1, "target": 1, "eom": 14, "measure": 0},
                device=gen.device_specs(n_channels=(1, 2), allow_builtin=False, allow_dmm=False,
                                        chan_kw={"kind": "Rydberg", "eom": True, "bandwidth": [8, 40]}))


@st.composite
def cases(draw, tier, eom=False):
    base = normalise(draw(gen.programs(profile_eom(tier) if eom else profile(tier))))
    if eom:
        # everything up to a point is concrete, variables only afterwards (often only in the last op)
        n_ops = len(base["ops"])
        cut = draw(st.integers(max(1, n_ops // 2), max(1, n_ops - 1)))
        pp = draw(gen_param.parametrized(base, rate=draw(st.sampled_from([30, 60, 90])), concrete_prefix=cut))
    else:
        pp = draw(gen_param.parametrized(base, rate=draw(st.sampled_from([15, 30, 60]))))
    reg = pp["register"]
    if reg.get("mappable"):
        n = reg["mappable"]
        k = draw(st.integers(1, n))
        ntr = len(reg["layout"]["coords"])
        traps = list(draw(st.permutations(list(range(ntr)))))[:k]
        order = list(draw(st.permutations(list(range(k)))))
        pp["mapping"] = dict(k=k, traps=traps, order=order)
    return pp


def normalise(prog):
    """Keeps only the ops the concrete program accepts (a deterministic function
    of the drawn program), with channel references resolved to names."""
    it = build.Interp(prog)
    if prog["register"].get("mappable"):
        # concrete outcome depends on the mapping; keep as drawn - except that nothing
        # follows a measurement (a template accepts calls after measure(): the C13 known
        # finding, not this property's subject)
        ops = []
        for op in prog["ops"]:
            ops.append(op)
            if op["op"] == "measure":
                break
        return dict(prog, ops=ops)
    ops = []
    for op in prog["ops"]:
        op2 = resolve_names(it, op)
        if it.apply(op2)[0] == "ok":
            ops.append(op2)
    return dict(prog, ops=ops)


def concrete_register(prog):
    """Own construction of the register a mapping must produce."""
    from pulser import Register, Register3D
    from pulser.register.register_layout import RegisterLayout

    reg = prog["register"]
    m = prog["mapping"]
    lay = RegisterLayout(reg["layout"]["coords"], slug=reg["layout"].get("slug"))
    coords = np.round(np.array(reg["layout"]["coords"], dtype=float), 6)
    order = sorted(range(len(coords)), key=lambda i: tuple(coords[i]))
    canon = coords[order]
    ids = build.register_qubit_ids(reg)[:m["k"]]
    cls = Register3D if canon.shape[1] == 3 else Register
    return cls({q: canon[t] for q, t in zip(ids, m["traps"])}, layout=lay, trap_ids=tuple(m["traps"]))


def resolve_names(it, op):
    """Channel references are resolved to names once, against the template
    (the order of declared_channels differs between a parametrized template and
    a built sequence, so indices would not mean the same channel)."""
    op = dict(op)
    if op["op"] == "add_dmm":
        op["dmm"] = it.dmm(op["dmm"])
    elif "ch" in op:
        op["ch"] = it.chan(op["ch"])
    if "chs" in op:
        op["chs"] = [it.chan(c) for c in op["chs"]]
    return op


def run_template(prog, ctx, C):
    it = build.Interp(prog)
    status = []
    resolved = []
    for op in prog["ops"]:
        op = resolve_names(it, op)
        resolved.append(op)
        st_, exc = it.apply(op)
        status.append(st_)
        # (structural failures only - indexing, arithmetic, types; a constructor refusing VALUES is the
        #  same refusal the plain values get and is handled by the comparison with direct construction)
        if st_ == "raised_arg" and not op.get("fault") and isinstance(
                exc, (IndexError, KeyError, TypeError, AttributeError, ZeroDivisionError)):
            # the arguments of the call could not even be written down with the variables
            # (indexing, arithmetic, waveform / pulse constructors) although the plain values
            # are accepted: there is no template for this program
            ctx.fail(C, f"template_arguments:{type(exc).__name__}",
                     f"{op['op']}: {type(exc).__name__}: {str(exc)[:200]}", cont=True)
    it.resolved_ops = resolved
    return it, status


def run_direct(prog, status, values, register=None, ops=None):
    it = build.Interp(prog, register=register, values=values)
    for op, st_ in zip(ops or prog["ops"], status):
        if st_ != "ok" or op["op"] == "declare_var":
            continue
        r, exc = it.apply(op)
        if r != "ok":
            return it, (op, exc)
    return it, None


def strip(s):
    """Snapshot parts that define 'the same sequence': the call log is not part
    of it (a parametrized declare_channel(initial_target) is recorded as
    declare + target), nor are phase trackers of reserved-but-unmapped qubits."""
    s = dict(s)
    for k in ("variables", "to_build_calls", "calls"):
        s.pop(k, None)
    reg_ids = set(s["register"][1])
    s["basis_ref"] = {b: {q: v for q, v in d.items() if q in reg_ids}
                      for b, d in s["basis_ref"].items()}
    return s


def check(case, ctx: Ctx):
    C = "C08.build"
    prog = case
    it, status = ctx.must(lambda: run_template(prog, ctx, C), C, "template construction")
    T = it.seq
    mappable = bool(prog["register"].get("mappable"))
    if not T.is_parametrized() and not mappable:
        ctx.label("never_parametrized")
        return
    ctx.label("mappable" if mappable else "concrete_register")
    t_before = snap.snapshot(T)
    qmap = None
    reg_direct = None
    if mappable:
        m = prog["mapping"]
        ids = build.register_qubit_ids(prog['register'])[:m["k"]]
        qmap = {ids[i]: m["traps"][i] for i in m["order"]}
        reg_direct = ctx.must(lambda: concrete_register(prog), C, "own register construction")
    built_snaps = []
    n_diff_assign = len({build.canon_dumps(a) if hasattr(build, "canon_dumps") else str(sorted(a.items()))
                         for a in prog["assignments"]})
    ctx.nontrivial(T.is_parametrized() and (prog["n_ops2"] >= 1 or n_diff_assign >= 2))
    for j, vals in enumerate(prog["assignments"]):
        kw = dict(vals)
        try:
            built = T.build(qubits=qmap, **kw) if mappable else T.build(**kw)
            berr = None
        except Exception as e:  # noqa: BLE001
            built, berr = None, e
        direct, derr = ctx.must(lambda: run_direct(prog, status, vals, reg_direct, it.resolved_ops), C,
                                "direct construction")
        if (berr is None) != (derr is None):
            if berr is None:
                # outside the quantifier ("assignments that the direct construction accepts")
                ctx.label("direct_refuses_build_accepts")
                built_snaps.append(None)
            else:
                ctx.fail(C, f"build_refuses_what_direct_accepts:{type(berr).__name__}",
                         f"assignment {j} {vals}: build raised {berr!r}")
        elif berr is not None:
            ctx.label("both_raise")
            built_snaps.append(None)
        else:
            sb, sd = strip(snap.snapshot(built)), strip(snap.snapshot(direct.seq))
            d = snap.diff(sd, sb)
            if d:
                ctx.fail(C, "built!=direct:" + snap.diff_key(d),
                         f"assignment {j} {vals}: direct vs built: {d}")
            if built.is_parametrized():
                ctx.fail(C, "built_still_parametrized", "")
            built_snaps.append(sb)
        d = snap.diff(t_before, snap.snapshot(T))
        if d:
            ctx.fail(C, "template_changed:" + snap.diff_key(d), f"after build #{j}: {d}")
    # reproducibility: first assignment again
    if built_snaps and built_snaps[0] is not None and len(prog["assignments"]) >= 2:
        again = ctx.must(lambda: T.build(qubits=qmap, **prog["assignments"][0]) if mappable
                         else T.build(**prog["assignments"][0]), C, "rebuild first assignment")
        d = snap.diff(built_snaps[0], strip(snap.snapshot(again)))
        if d:
            ctx.fail(C, "not_reproducible:" + snap.diff_key(d), d)
    if mappable and built_snaps and built_snaps[0] is not None:
        ctx.label("mappable_built")


CLAUSES = [
    Clause("build", check, gen=lambda t: cases(t),
           budget={"quick": (16, 200), "thorough": (16, 5000)},
           doc="build(**v) vs direct construction, template immutability, reproducibility, mappable resolution"),
    Clause("build_eom", check, gen=lambda t: cases(t, eom=True),
           budget={"quick": (16, 200), "thorough": (16, 3000)},
           doc="the same for EOM-heavy templates with a concrete prefix (few variables)"),
]
