"""C16 - waveforms and pulses honour their defining contracts."""
from __future__ import annotations

import math

import numpy as np
from hypothesis import strategies as st

from pv import build, gen
from pv.engine import Clause, Ctx

gen.DEGENERATE_WF = True
gen.INTERP_KWARGS = True
TWO_PI = 2 * math.pi
RULE = (
    "Every waveform class x every duration 1..40 (exhaustive, several parameter "
    "sets of either sign) plus Hypothesis-generated durations up to 5000 and "
    "parameters; from_max_val with max_val/area of both signs and ratios bounded "
    "so that the resulting duration is <= 5000 ns (quick) / 20000 ns (thorough) "
    "(KaiserWaveform.from_max_val is quadratic in the duration); slices/indices "
    "incl. negative and out of range; scaling factors incl. 0 and negative; Pulse "
    "constructors incl. ArbitraryPhase. Oracles: the defining formulas evaluated "
    "with numpy. Non-trivial: duration >= 2 and at least one non-zero parameter; "
    "distinct = distinct canonical JSON."
)
ASSUMPTIONS = [
    "numpy.blackman / numpy.kaiser / scipy PchipInterpolator are the documented windows/interpolant",
    "InterpolatedWaveform rounds its samples to <= 9 decimals (documented in the code): 1e-8 tolerance there",
    "from_max_val 'as close as whole nanoseconds allow' is checked locally (durations D-1, D-2) and only for D >= 16",
]


def smp(w):
    return np.asarray(w.samples.as_array(), dtype=float)


# ------------------------------------------------------------------ samples
@st.composite
def wf_cases(draw):
    d = draw(st.sampled_from([1, 2, 3, 4, 5, 15, 16, 17, 100]) | st.integers(1, 5000))
    lo, hi = draw(st.sampled_from([(-20.0, 20.0), (0.0, 15.0), (-3.0, 0.0), (-1e3, 1e3)]))
    return dict(wf=draw(gen.waveform_specs(d, lo, hi)), k=draw(
        st.sampled_from([0.0, 1.0, -1.0, 2.0, 0.5, -3.25]) | gen.fl(-10, 10)),
        idx=[draw(st.integers(-6000, 6000)) for _ in range(3)],
        sl=[draw(st.one_of(st.none(), st.integers(-6000, 6000))) for _ in range(2)],
        newd=draw(st.integers(1, 400)))


def enum_wf(tier):
    params = [(1.0, 3.0), (-2.0, 0.5), (0.0, 0.0), (7.5, 7.5), (-1e-3, 4.0)]
    for d in range(1, 41):
        for (a, b) in params:
            specs = [dict(k="const", d=d, v=a), dict(k="ramp", d=d, a=a, b=b),
                     dict(k="blackman", d=d, area=a if a else 1.0),
                     dict(k="kaiser", d=d, area=b if b else -1.0),
                     dict(k="kaiser", d=d, area=a if a else 2.0, beta=abs(b) * 3),
                     dict(k="custom", samples=list(np.linspace(a, b, d))),
                     ]
            if d >= 2:
                specs.append(dict(k="interp", d=d, values=[a, b]))
            if d >= 6:
                specs.append(dict(k="interp", d=d, values=[a, b, a]))
                specs.append(dict(k="composite", parts=[dict(k="const", d=d // 2, v=a),
                                                        dict(k="ramp", d=d - d // 2, a=a, b=b)]))
            for s in specs:
                yield dict(wf=s, k=-1.5, idx=[0, -1, d], sl=[1, -1], newd=d + 3)


def expected_samples(s):
    k = s["k"]
    if k == "const":
        return np.full(s["d"], float(s["v"]))
    if k == "ramp":
        return np.linspace(s["a"], s["b"], s["d"])
    if k == "custom":
        return np.asarray(s["samples"], dtype=float)
    if k == "composite":
        parts = [expected_samples(p) for p in s["parts"]]
        if any(p is None for p in parts):
            return None
        return np.concatenate(parts)
    if k in ("blackman", "kaiser"):
        w = np.blackman(s["d"]) if k == "blackman" else np.kaiser(s["d"], s.get("beta", 14.0))
        w = np.clip(w, 0, np.inf)
        tot = w.sum()
        if tot == 0:
            return None
        return w * (s["area"] * 1e3 / tot)
    return None


def check_wf(case, ctx: Ctx):
    C = "C16.waveform"
    s = case["wf"]
    w = ctx.must(lambda: build.mk_wf(s), C, f"construct {s['k']}")
    kind = s["k"]
    ctx.label(kind)
    d = w.duration
    x = ctx.must(lambda: smp(w), C, "samples")
    nz = any(abs(v) > 0 for v in _numbers(s))
    ctx.nontrivial(d >= 2 and nz)
    if len(x) != d:
        ctx.fail(C, f"len!=duration:{kind}", f"{len(x)} != {d}")
    if "d" in s and d != s["d"]:
        ctx.fail(C, f"duration:{kind}", f"{d} != {s['d']}")
    if not np.all(np.isfinite(x)):
        # name the leaf waveform(s) that produce the non-finite samples
        leaves = []

        def walk(sp):
            if sp["k"] == "composite":
                for p_ in sp["parts"]:
                    walk(p_)
            elif not np.all(np.isfinite(smp(build.mk_wf(sp)))):
                leaves.append(f"{sp['k']}:d={sp.get('d', len(sp.get('samples', [])))}")

        walk(s)
        for leaf in sorted(set(leaves)):
            ctx.fail(C, f"non_finite:{leaf}", f"{s}: samples {x[:5]}", cont=True)
        return
    exp = expected_samples(s)
    if exp is not None:
        tol = 1e-9 * max(1.0, float(np.max(np.abs(exp))))
        if exp.shape != x.shape or np.max(np.abs(exp - x)) > tol:
            ctx.fail(C, f"values:{kind}", f"{s}: got {x[:6]}, defining formula {exp[:6]}")
    if kind == "ramp" and d >= 2:
        if abs(x[0] - s["a"]) > 1e-12 * max(1, abs(s["a"])) or abs(x[-1] - s["b"]) > 1e-9 * max(1, abs(s["b"])):
            ctx.fail(C, "ramp_endpoints", f"{x[0]}, {x[-1]} vs {s['a']}, {s['b']}")
    if kind == "interp":
        vals = np.asarray(s["values"], dtype=float)
        times = np.asarray(s["times"], dtype=float) if s.get("times") is not None else np.linspace(0, 1, len(vals))
        pts = np.round(times * (d - 1)).astype(int)
        tol = 1e-8 * max(1.0, float(np.max(np.abs(vals))))
        if np.max(np.abs(x[pts] - vals)) > tol:
            ctx.fail(C, "interp_points", f"{x[pts]} vs {vals}")
        if not s.get("ikw") and (x.max() > vals.max() + tol or x.min() < vals.min() - tol):
            ctx.fail(C, "interp_overshoot", f"[{x.min()},{x.max()}] outside [{vals.min()},{vals.max()}]")
    if abs(w.integral * 1e3 - x.sum()) > 1e-9 * max(1.0, np.abs(x).sum()):
        ctx.fail(C, "integral", f"{w.integral*1e3} vs {x.sum()}")
    if kind in ("blackman", "kaiser") and abs(w.integral - s["area"]) > 1e-9 * abs(s["area"]):
        ctx.fail(C, f"area:{kind}", f"{w.integral} vs {s['area']}")
    if abs(w.first_value - x[0]) > 0 or abs(w.last_value - x[-1]) > 0:
        ctx.fail(C, "first_last", "")
    # ---- algebra
    k = case["k"]
    tol = 1e-8 * max(1.0, abs(k) * float(np.max(np.abs(x))))
    tol += 2e-9 * abs(k)  # InterpolatedWaveform rounds its samples to 9 decimals
    for name, fn, ex in (("mul", lambda: w * k, k * x), ("neg", lambda: -w, -x)):
        y = ctx.must(fn, C, name)
        if y.duration != d or np.max(np.abs(smp(y) - ex)) > tol:
            ctx.fail(C, f"{name}:{kind}", f"k={k}: {smp(y)[:5]} vs {ex[:5]}")
    if k != 0:
        y = ctx.must(lambda: w / k, C, "div")
        if np.max(np.abs(smp(y) - x / k)) > 1e-8 * max(1.0, float(np.max(np.abs(x / k)))) + 2e-9 / abs(k):
            ctx.fail(C, f"div:{kind}", f"k={k}")
    try:
        w / 0.0
        ctx.fail(C, "div_by_zero_accepted", "")
    except ZeroDivisionError:
        pass
    # ---- equality <-> sample-wise closeness
    w2 = build.mk_wf(s)
    if not (w == w2) or hash(w) != hash(w2):
        ctx.fail(C, "eq_same_definition", "")
    from pulser.waveforms import CustomWaveform

    cw = CustomWaveform(x)
    if not (w == cw and cw == w):
        ctx.fail(C, "eq_custom_with_same_samples", "")
    pert = x.copy()
    pert[0] += 1.0 + abs(pert[0])
    if w == CustomWaveform(pert):
        ctx.fail(C, "eq_different_samples", "")
    if d >= 2 and w == CustomWaveform(x[:-1]):
        ctx.fail(C, "eq_different_duration", "")
    # ---- indexing
    for i in case["idx"]:
        if -d <= i < d:
            got = float(ctx.must(lambda: w[i], C, "w[i]"))
            if got != x[i]:
                ctx.fail(C, "index", f"w[{i}]={got} vs {x[i]}")
        else:
            try:
                w[i]
                ctx.fail(C, "index_out_of_range_accepted", f"{i} / {d}")
            except IndexError:
                pass
    a, b = case["sl"]
    got = np.asarray(ctx.must(lambda: w[a:b], C, "w[a:b]").as_array(), dtype=float)
    if not np.array_equal(got, x[a:b]):
        ctx.fail(C, "slice", f"w[{a}:{b}] -> {got[:5]} (len {len(got)}) vs numpy {x[a:b][:5]} (len {len(x[a:b])})")
    try:
        w[0:d:2]
        ctx.fail(C, "slice_step_accepted", "")
    except IndexError:
        pass
    # ---- change_duration keeps the defining parameters
    nd = case["newd"]
    if kind in ("const", "ramp", "blackman", "kaiser", "interp"):
        if kind == "interp" and nd < 2 * len(s["values"]):
            return
        s2 = dict(s, d=nd)
        if kind == "blackman" and nd == 2:
            return
        if kind == "interp":
            try:
                ref = build.mk_wf(s2)
            except ValueError:
                ctx.label("interp_points_collide_at_new_duration")
                return
        w3 = ctx.must(lambda: w.change_duration(nd), C, "change_duration")
        ref = build.mk_wf(s2)
        if type(w3) is not type(w) or w3.duration != nd:
            ctx.fail(C, f"change_duration:{kind}", "type/duration")
        if np.all(np.isfinite(smp(ref))) and not np.allclose(smp(w3), smp(ref), rtol=1e-9, atol=1e-9):
            ctx.fail(C, f"change_duration_params:{kind}", f"{s} -> {nd}")
    else:
        try:
            w.change_duration(nd)
            ctx.fail(C, f"change_duration_accepted:{kind}", "")
        except NotImplementedError:
            pass


def _numbers(x):
    if isinstance(x, dict):
        for k, v in x.items():
            if k not in ("d", "beta", "times"):
                yield from _numbers(v)
    elif isinstance(x, list):
        for v in x:
            yield from _numbers(v)
    elif isinstance(x, (int, float)) and not isinstance(x, bool):
        yield float(x)


# ------------------------------------------------------------------ from_max_val
@st.composite
def maxval_cases(draw, tier):
    cls = draw(st.sampled_from(["blackman", "kaiser"]))
    sign = draw(st.sampled_from([1, -1]))
    max_val = draw(st.sampled_from([1.0, 2 * math.pi, 10.0, 0.3]) | gen.fl(0.05, 60))
    cap = 5000 if tier == "quick" else 20000
    # duration ~ area*1e3/(0.4*max_val) <= cap
    amax = cap * 0.4 * max_val / 1e3
    area = draw(gen.fl(min(1e-4, amax), amax))
    out = dict(cls=cls, max_val=sign * max_val, area=sign * max(area, 1e-6))
    if cls == "kaiser" and draw(st.booleans()):
        out["beta"] = draw(st.sampled_from([0.0, 1.0, 5.0, 14.0, 30.0]))
    if draw(st.integers(0, 9)) == 0:
        out["area"] = -out["area"]  # mismatching signs must be refused
    return out


def check_maxval(case, ctx: Ctx):
    from pulser.waveforms import BlackmanWaveform, KaiserWaveform

    C = "C16.from_max_val"
    cls = BlackmanWaveform if case["cls"] == "blackman" else KaiserWaveform
    mv, area = case["max_val"], case["area"]
    extra = (case["beta"],) if "beta" in case else ()
    ctx.label(case["cls"])
    if np.sign(mv) != np.sign(area):
        try:
            cls.from_max_val(mv, area, *extra)
            ctx.fail(C, "sign_mismatch_accepted", f"{case}")
        except ValueError:
            pass
        return
    w = ctx.must(lambda: cls.from_max_val(mv, area, *extra), C, "from_max_val")
    x = smp(w)
    D = w.duration
    ctx.nontrivial(D >= 2)
    if not np.all(np.isfinite(x)):
        ctx.fail(C, f"non_finite:{case['cls']}", f"{case} -> duration {D}", cont=True)
        return
    if abs(w.integral - area) > 1e-9 * abs(area):
        ctx.fail(C, "area", f"{w.integral} vs {area}")
    m = float(np.max(np.abs(x)))
    if m > abs(mv) * (1 + 1e-9):
        ctx.fail(C, f"exceeds_max_val:{case['cls']}", f"{case}: max|samples|={m} (duration {D})")
    if np.any(np.sign(x[np.abs(x) > 0]) != np.sign(mv)):
        ctx.fail(C, "wrong_sign", "")
    # it is the window that was asked for (same class, requested beta), of that duration
    ref = smp(cls(D, area, *extra))
    if ref.shape != x.shape or np.max(np.abs(ref - x)) > 1e-9 * max(1.0, m):
        ctx.fail(C, f"not_the_requested_window:{case['cls']}",
                 f"{case}: from_max_val returned {w!r}, whose samples differ from {case['cls']}({D}, area"
                 f"{', beta=' + str(extra[0]) if extra else ''}) by {np.max(np.abs(ref - x)) if ref.shape == x.shape else 'shape'}")
    if D < 16:
        ctx.label("short_window_irregularity(skipped)")
        return
    for dd in (D - 1, D - 2):
        other = cls(dd, area, *extra)
        mo = float(np.max(np.abs(smp(other))))
        if mo <= abs(mv) * (1 - 1e-9) and mo > m * (1 + 1e-9):
            ctx.fail(C, f"not_closest:{case['cls']}",
                     f"{case}: duration {D} peaks at {m}, duration {dd} peaks at {mo} <= |max_val|")


# ------------------------------------------------------------------ pulses
@st.composite
def pulse_cases(draw):
    d = draw(st.sampled_from([1, 2, 3, 16, 100]) | st.integers(1, 600))
    return dict(
        amp=draw(gen.waveform_specs(d, draw(st.sampled_from([0.0, 0.0, -1.0])), 12.0)),
        det=draw(gen.waveform_specs(draw(st.sampled_from([d, d, d + 1])), -20.0, 20.0)),
        # (tiny negative values: the remainder of a subtraction that should have given 0)
        phase=draw(st.sampled_from(gen.PHASES) | gen.fl(-50, 50) | st.sampled_from([-1e-20, -1e-17, -4.4e-16])),
        pps=draw(st.sampled_from([0.0, -1.0, 7.0, TWO_PI, -1e-17])),
        phase_wf=draw(gen.waveform_specs(d, -8.0, 8.0,
                                         kinds=["const", "ramp", "interp", "custom", "blackman"])),
    )


def check_pulse(case, ctx: Ctx):
    from pulser import Pulse, Register, Sequence
    from pulser.devices import MockDevice
    from pulser.sampler import sample

    C = "C16.pulse"
    try:
        amp, det, pw = build.mk_wf(case["amp"]), build.mk_wf(case["det"]), build.mk_wf(case["phase_wf"])
    except Exception:  # noqa: BLE001
        ctx.label("unconstructible")
        return
    xa, xd = smp(amp), smp(det)
    if not (np.all(np.isfinite(xa)) and np.all(np.isfinite(xd)) and np.all(np.isfinite(smp(pw)))):
        ctx.label("non_finite(waveform clause)")
        return
    ok_amp = bool(np.all(xa >= 0))
    ok_len = amp.duration == det.duration
    try:
        p = Pulse(amp, det, case["phase"], case["pps"])
        made = True
    except (ValueError, TypeError):
        made = False
    ctx.nontrivial(amp.duration >= 2)
    if made != (ok_amp and ok_len):
        ctx.fail(C, f"constructor:{'accepted' if made else 'refused'}:neg_amp={not ok_amp},len_mismatch={not ok_len}",
                 f"{case}")
    if made:
        ph = float(p.phase)
        if not (0 <= ph < TWO_PI) or abs(((ph - case["phase"]) + math.pi) % TWO_PI - math.pi) > 1e-9:
            ctx.fail(C, "phase_range", f"{ph} for {case['phase']}")
        if not (0 <= p.post_phase_shift < TWO_PI):
            ctx.fail(C, "pps_range", f"{p.post_phase_shift}")
        if p.duration != amp.duration:
            ctx.fail(C, "duration", "")
    # ---- ArbitraryPhase reproduces the phase at every sample
    if not ok_amp or pw.duration != amp.duration:
        return
    if case["amp"]["k"] == "const" and case["amp"]["v"] == 0:
        return  # a zero-amplitude constant pulse is a (detuned) delay: its phase is not sampled
    ap = ctx.must(lambda: Pulse.ArbitraryPhase(amp, pw), C, "ArbitraryPhase")
    ctx.label("arbitrary_phase:" + case["phase_wf"]["k"])
    seq = Sequence(Register({"q0": (0.0, 0.0)}), MockDevice)
    seq.declare_channel("ch", "rydberg_global")
    ctx.must(lambda: seq.add(ap, "ch"), C, "add(ArbitraryPhase pulse)")
    cs = sample(seq).channel_samples["ch"]
    got = np.asarray(cs.phase_modulation.as_array(), dtype=float)
    want = smp(pw)
    err = np.abs((got - want + math.pi) % TWO_PI - math.pi)
    if err.max() > 1e-9 * max(1.0, float(np.max(np.abs(want)))) + 1e-9:
        i = int(np.argmax(err))
        ctx.fail(C, f"arbitrary_phase:{case['phase_wf']['k']}",
                 f"phase_modulation[{i}]={got[i]} vs phase waveform {want[i]} (mod 2pi)")


CLAUSES = [
    Clause("waveform", check_wf, gen=lambda t: wf_cases(),
           budget={"quick": (8, 500), "thorough": (16, 20000)}),
    Clause("waveform_d1to40", check_wf, enum=enum_wf,
           budget={"quick": (8, 0), "thorough": (16, 0)}, exhaustive=True,
           doc="every class x every duration 1..40 x 5 parameter sets"),
    Clause("from_max_val", check_maxval, gen=lambda t: maxval_cases(t),
           budget={"quick": (16, 200), "thorough": (16, 3000)}),
    Clause("pulse", check_pulse, gen=lambda t: pulse_cases(),
           budget={"quick": (8, 300), "thorough": (16, 10000)}),
]
