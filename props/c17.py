"""C17 - devices, registers, layouts, noise models, configs, results round-trip."""
from __future__ import annotations

import json
import math
import os

import numpy as np
from hypothesis import strategies as st

from pv import build, env, gen
from pv.engine import Clause, Ctx

RULE = (
    "Hypothesis-generated instances of NoiseModel (every subset of parameters "
    "incl. irrelevant ones, eff_noise operators real/complex, leakage), "
    "Device/VirtualDevice (EOM, DMM, calibrated layouts, default noise model), "
    "Register/Register3D (+layout), RegisterLayout, DetuningMap, "
    "EmulationConfig/QutipConfig (every default observable with tags/evaluation "
    "times, initial state, operators with complex coefficients) and Results "
    "(values of every JSON-able kind). Oracles: own jsonschema validation "
    "against the schema files on disk, decode(encode(x)) == x and field by "
    "field, idempotent re-encode, NoiseModel<->SimConfig parameter equality, "
    "and no change of earlier instances when later ones are built. Non-trivial: "
    ">= 2 optional fields at non-default values (aliasing: two instances of "
    "different size); distinct = distinct canonical JSON."
)
ASSUMPTIONS = [
    "jsonschema + the schema files on disk; Python json float round trip",
    "Results values are compared after JSON normalisation (documented loss of array types)",
]

_SCHEMAS = None


def own_validate(doc_str: str, name: str):
    """Independent validation with the schema files on disk."""
    global _SCHEMAS
    import jsonschema
    from referencing import Registry, Resource

    if _SCHEMAS is None:
        d = os.path.join(env.REPO_ROOT, "pulser-core", "pulser", "json", "abstract_repr", "schemas")
        sch = {}
        for fn in os.listdir(d):
            with open(os.path.join(d, fn)) as f:
                sch[fn] = json.load(f)
        reg = Registry([(fn, Resource.from_contents(s)) for fn, s in sch.items()])
        _SCHEMAS = (sch, reg)
    sch, reg = _SCHEMAS
    jsonschema.validate(json.loads(doc_str), sch[f"{name}-schema.json"], registry=reg)


def schema_ok(ctx, C, doc, name, what):
    try:
        own_validate(doc, name)
    except Exception as e:  # noqa: BLE001
        ctx.fail(C, f"schema_invalid:{what}", f"{type(e).__name__}: {str(e)[:300]}")


# ------------------------------------------------------------------ noise
@st.composite
def noise_kwargs(draw):
    kw: dict = {}
    leak = draw(st.integers(0, 5)) == 0
    need_runs = False
    if draw(st.booleans()):
        kw["relaxation_rate"] = draw(st.sampled_from([0.0, 0.01, 1.5]))
    if not leak and draw(st.booleans()):
        kw["dephasing_rate"] = draw(st.sampled_from([0.0, 0.05, 2.0]))
    if not leak and draw(st.booleans()):
        kw["hyperfine_dephasing_rate"] = draw(st.sampled_from([0.0, 1e-3]))
    if not leak and draw(st.booleans()):
        kw["depolarizing_rate"] = draw(st.sampled_from([0.0, 0.05]))
    if draw(st.booleans()):
        kw["temperature"] = draw(st.sampled_from([0.0, 50.0, 0.3, 1234.5]))
        need_runs |= bool(kw["temperature"])
    if draw(st.booleans()):
        kw["laser_waist"] = draw(st.sampled_from([175.0, 20.5]))
    if draw(st.booleans()):
        kw["amp_sigma"] = draw(st.sampled_from([0.0, 0.05, 1.0]))
        need_runs |= bool(kw["amp_sigma"])
    if draw(st.booleans()):
        kw["p_false_pos"] = draw(st.sampled_from([0.0, 0.01, 1.0]))
    if draw(st.booleans()):
        kw["p_false_neg"] = draw(st.sampled_from([0.0, 0.05]))
    if draw(st.booleans()):
        kw["state_prep_error"] = draw(st.sampled_from([0.0, 0.005, 0.5]))
        need_runs |= bool(kw["state_prep_error"])
    if leak or draw(st.integers(0, 2)) == 0:
        dim = (3 if leak else 2) + draw(st.sampled_from([0, 0, 1]))
        n = draw(st.integers(1, 3))
        opers = []
        for _ in range(n):
            cplx = draw(st.booleans())
            m = [[draw(st.sampled_from([0.0, 1.0, -0.5, 2.25])) for _ in range(dim)] for _ in range(dim)]
            if cplx:
                m = [[{"re": v, "im": draw(st.sampled_from([0.0, 1.0, -0.25]))} for v in row] for row in m]
            opers.append(m)
        kw["eff_noise_opers"] = opers
        kw["eff_noise_rates"] = [draw(st.sampled_from([0.0, 0.1, 3.0])) for _ in range(n)]
        kw["oper_container"] = draw(st.sampled_from(["list", "tuple", "array"]))
    if leak:
        kw["with_leakage"] = True
    if need_runs or draw(st.integers(0, 3)) == 0:
        kw["runs"] = draw(st.sampled_from([1, 15, 100]))
        kw["samples_per_run"] = draw(st.sampled_from([1, 5]))
    return kw


def mk_noise(kw):
    from pulser.noise_model import NoiseModel

    kw = dict(kw)
    cont = kw.pop("oper_container", "list")
    if "eff_noise_opers" in kw:
        ops = []
        for m in kw["eff_noise_opers"]:
            a = np.array([[complex(v["re"], v["im"]) if isinstance(v, dict) else v for v in row] for row in m])
            ops.append(a if cont == "array" else (tuple(map(tuple, a.tolist())) if cont == "tuple" else a.tolist()))
        kw["eff_noise_opers"] = tuple(ops) if cont == "tuple" else ops
        kw["eff_noise_rates"] = tuple(kw["eff_noise_rates"]) if cont == "tuple" else list(kw["eff_noise_rates"])
    return NoiseModel(**kw)


NOISE_PARAMS = {
    "leakage": ("with_leakage",), "doppler": ("temperature",),
    "amplitude": ("laser_waist", "amp_sigma"),
    "SPAM": ("p_false_pos", "p_false_neg", "state_prep_error"),
    "dephasing": ("dephasing_rate", "hyperfine_dephasing_rate"),
    "relaxation": ("relaxation_rate",), "depolarizing": ("depolarizing_rate",),
    "eff_noise": ("eff_noise_rates", "eff_noise_opers"),
}


def noise_fields_equal(a, b, tol=0.0):
    import dataclasses

    for f in dataclasses.fields(a):
        x, y = getattr(a, f.name), getattr(b, f.name)
        if f.name == "eff_noise_opers":
            if len(x) != len(y) or any(
                    not np.array_equal(np.array(p, dtype=complex), np.array(q, dtype=complex))
                    for p, q in zip(x, y)):
                return f.name
        elif isinstance(x, float) and isinstance(y, float) and tol:
            if abs(x - y) > tol * max(1.0, abs(x)):
                return f.name
        elif x != y:
            return f.name
    return None


def check_noise(case, ctx: Ctx):
    from pulser.noise_model import NoiseModel
    from pulser_simulation import SimConfig

    C = "C17.noise"
    try:
        nm = mk_noise(case)
    except (ValueError, TypeError):
        ctx.label("refused_by_constructor")
        return
    set_ = {k for k, v in case.items() if k != "oper_container" and
            (bool(v) if not isinstance(v, list) else len(v) > 0)}
    exp_types = {t for t, ps in NOISE_PARAMS.items() if set(ps) & set_}
    ctx.nontrivial(len(set_) >= 2)
    for t in sorted(exp_types):
        ctx.label(t)
    if set(nm.noise_types) != exp_types:
        ctx.fail(C, "noise_types", f"{nm.noise_types} vs parameters set {sorted(set_)} -> {sorted(exp_types)}")
    doc = ctx.must(lambda: nm.to_abstract_repr(), C, "to_abstract_repr")
    schema_ok(ctx, C, doc, "noise", "noise")
    back = ctx.must(lambda: NoiseModel.from_abstract_repr(doc), C, "from_abstract_repr")
    relevant0 = NoiseModel._find_relevant_params(nm.noise_types, nm.state_prep_error, nm.amp_sigma, nm.laser_waist)
    bad = noise_fields_equal(nm, back)
    if bad:
        disc = (f"roundtrip:field:{bad}" if bad in relevant0 or bad == "noise_types"
                else "roundtrip:irrelevant_param_dropped")
        ctx.fail(C, disc, f"{bad}: {getattr(nm, bad)!r} -> {getattr(back, bad)!r} ({nm!r})", cont=True)
    elif not (back == nm):
        ctx.fail(C, "roundtrip:eq", f"{nm!r} -> {back!r}")
    doc2 = ctx.must(lambda: back.to_abstract_repr(), C, "re-encode")
    if json.loads(doc2) != json.loads(doc) and not bad:
        ctx.fail(C, "reencode_differs", "")
    # NoiseModel <-> SimConfig
    try:
        sc = SimConfig.from_noise_model(nm)
    except Exception as e:  # noqa: BLE001
        ctx.fail(C, f"simconfig:from_noise_model:{type(e).__name__}", f"{nm!r}: {e}")
        return
    nm2 = ctx.must(lambda: sc.to_noise_model(), C, "SimConfig.to_noise_model")
    if set(nm2.noise_types) != set(nm.noise_types):
        ctx.fail(C, "simconfig:noise_types", f"{nm.noise_types} -> {nm2.noise_types}")
    relevant = NoiseModel._find_relevant_params(nm.noise_types, nm.state_prep_error, nm.amp_sigma, nm.laser_waist)
    for p in sorted(relevant):
        x, y = getattr(nm, p), getattr(nm2, p)
        if p == "eff_noise_opers":
            same = len(x) == len(y) and all(
                np.allclose(np.array(a, dtype=complex), np.array(b, dtype=complex), rtol=0, atol=0)
                for a, b in zip(x, y))
        elif p == "temperature":
            same = abs(x - y) <= 1e-12 * max(1.0, abs(x))
        elif isinstance(x, tuple):
            same = tuple(x) == tuple(y)
        else:
            same = x == y
        if not same:
            ctx.fail(C, f"simconfig:param:{p}", f"{x!r} -> {y!r} ({nm!r})")


# ------------------------------------------------------------------ devices
@st.composite
def device_cases(draw):
    spec = draw(gen.device_specs(allow_builtin=False, n_channels=(1, 4)))
    if draw(st.booleans()):
        spec["default_noise_model"] = draw(noise_kwargs())
    if spec["type"] == "physical" and draw(st.booleans()):
        spec["pre_calibrated_layouts"] = [
            [[x * 6.0, y * 6.0] for x in range(-2, 3) for y in range(-1, 2)],
        ]
        spec["dimensions"] = 3
    for k, vals in (("max_layout_filling", [0.3, 0.9]), ("min_layout_traps", [2]),
                    ("max_layout_traps", [50]), ("optimal_layout_filling", [0.2]),
                    ("max_runs", [500]), ("requires_layout", [True])):
        if draw(st.integers(0, 3)) == 0:
            spec[k] = draw(st.sampled_from(vals))
    if "optimal_layout_filling" in spec and spec["optimal_layout_filling"] > spec.get("max_layout_filling", 0.5):
        del spec["optimal_layout_filling"]
    if "max_layout_traps" in spec and spec["type"] == "physical":
        # documented constraint: filling * max traps >= max_atom_num (50 for generated physical devices)
        spec["max_layout_traps"] = int(math.ceil(50 / spec.get("max_layout_filling", 0.5))) + 1
    if "max_layout_traps" in spec and "min_layout_traps" in spec:
        spec["max_layout_traps"] = max(spec["max_layout_traps"], spec["min_layout_traps"])
    if spec["type"] == "physical" and draw(st.booleans()):
        spec["accepts_new_layouts"] = draw(st.booleans())
    for dm_ in spec.get("dmms", []):
        # limits of exactly 0 are defined limits (not the same as leaving them undefined)
        if draw(st.integers(0, 4)) == 0:
            dm_["total_bottom_detuning"] = 0.0
            dm_["bottom_detuning"] = draw(st.sampled_from([0.0, 0.0, None])) if spec["type"] != "physical" else 0.0
    for c in spec["channels"]:
        if draw(st.integers(0, 3)) == 0 and c["addr"] == "Global":
            c["propagation_dir"] = draw(st.sampled_from([[0.0, 1.0, 0.0], [1.0, 0.0, 0.0], [1.0, 1.0, 0.0]]))
    return spec


def mk_device_full(spec):
    spec = dict(spec)
    nmk = spec.pop("default_noise_model", None)
    dev = build.mk_device(spec)
    if nmk is not None:
        import dataclasses

        nm = mk_noise(nmk)
        dev = dataclasses.replace(dev, default_noise_model=nm)
    return dev


def dataclass_diff(a, b, path=""):
    import dataclasses

    if hasattr(a, "static_hash") and hasattr(b, "static_hash"):
        # layouts / weight maps: equality is defined by their content, the
        # special-layout subclass is not part of the abstract representation
        return None if (a == b and getattr(a, "slug", None) == getattr(b, "slug", None)) else f"{path}: layouts differ"
    scal = (int, float, complex, np.number, bool)
    if type(a) is not type(b) and not (isinstance(a, scal) and isinstance(b, scal)) and not (
            isinstance(a, (tuple, list)) and isinstance(b, (tuple, list))):
        return f"{path}: type {type(a).__name__} != {type(b).__name__}"
    if dataclasses.is_dataclass(a) and not isinstance(a, type):
        for f in dataclasses.fields(a):
            if f.name in ("short_description",):
                continue
            try:
                x, y = getattr(a, f.name), getattr(b, f.name)
            except AttributeError:
                continue
            d = dataclass_diff(x, y, f"{path}.{f.name}")
            if d:
                return d
        return None
    if isinstance(a, (tuple, list)):
        if len(a) != len(b):
            return f"{path}: len {len(a)} != {len(b)}"
        for i, (x, y) in enumerate(zip(a, b)):
            d = dataclass_diff(x, y, f"{path}[{i}]")
            if d:
                return d
        return None
    if isinstance(a, np.ndarray):
        return None if np.array_equal(a, b) else f"{path}: arrays differ"
    try:
        same = a == b
        if isinstance(same, np.ndarray):
            same = bool(same.all())
    except Exception:  # noqa: BLE001
        same = False
    return None if same else f"{path}: {a!r} != {b!r}"[:300]


def check_device(case, ctx: Ctx):
    from pulser.devices import Device, VirtualDevice
    from pulser.json.coders import PulserDecoder, PulserEncoder

    C = "C17.device"
    try:
        dev = mk_device_full(case)
    except (ValueError, TypeError) as e:
        if "default_noise_model" in case:
            ctx.label("noise_refused")
            return
        raise
    n_opt = sum(1 for k in ("default_noise_model", "pre_calibrated_layouts", "max_layout_filling",
                            "min_layout_traps", "max_layout_traps", "optimal_layout_filling",
                            "max_runs", "requires_layout", "max_sequence_duration", "channel_ids")
                if k in case)
    ctx.nontrivial(n_opt >= 2)
    ctx.label(case["type"])
    doc = ctx.must(lambda: dev.to_abstract_repr(), C, "to_abstract_repr")
    schema_ok(ctx, C, doc, "device", case["type"])
    cls = Device if case["type"] == "physical" else VirtualDevice
    back = ctx.must(lambda: cls.from_abstract_repr(doc), C, "from_abstract_repr")
    d = dataclass_diff(dev, back)
    dropped = False
    if d:
        fld = d.split(":")[0].split("[")[0].strip(".")
        if fld in ("default_noise_model.runs", "default_noise_model.samples_per_run"):
            dropped = True
            ctx.fail(C, "roundtrip:default_noise_model:irrelevant_param_dropped", d, cont=True)
        else:
            ctx.fail(C, "roundtrip:field:" + fld, d)
    elif not (back == dev):
        ctx.fail(C, "roundtrip:eq", "")
    doc2 = ctx.must(lambda: back.to_abstract_repr(), C, "re-encode")
    if json.loads(doc2) != json.loads(doc) and not dropped:
        ctx.fail(C, "reencode_differs", "")
    if case["type"] == "virtual" and "default_noise_model" not in case:
        # (the legacy encoder does not know NoiseModel; not part of the statement)
        s = ctx.must(lambda: json.dumps(dev, cls=PulserEncoder), C, "legacy encode")
        b2 = ctx.must(lambda: json.loads(s, cls=PulserDecoder), C, "legacy decode")
        d = dataclass_diff(dev, b2)
        if d:
            ctx.fail(C, "legacy:field:" + d.split(":")[0].split("[")[0].strip("."), d)


# ------------------------------------------------------------------ registers
@st.composite
def reg_cases(draw):
    spec = draw(gen.register_specs(n=(1, 6), layout=draw(st.booleans())))
    if spec.get("layout") and draw(st.booleans()):
        spec["layout"]["slug"] = draw(st.sampled_from(["MyLayout", "x"]))
    w = [draw(st.sampled_from([0.0, 1.0, 0.5]) | gen.fl(0, 1)) for _ in spec["ids"]]
    return dict(reg=spec, weights=w, slug=draw(st.sampled_from([None, "dm"])),
                perm=list(draw(st.permutations(list(range(len(spec["ids"])))))))


def check_register(case, ctx: Ctx):
    from pulser import Register, Register3D
    from pulser.json.coders import PulserDecoder, PulserEncoder
    from pulser.register.register_layout import RegisterLayout

    C = "C17.register"
    spec = case["reg"]
    reg = ctx.must(lambda: build.mk_register(spec), C, "register construction")
    ctx.nontrivial(bool(spec.get("layout")) or spec["dim"] == 3)
    ctx.label(f"dim{spec['dim']}", "layout" if spec.get("layout") else "plain")
    cls = Register3D if spec["dim"] == 3 else Register
    doc = ctx.must(lambda: reg.to_abstract_repr(), C, "to_abstract_repr")
    schema_ok(ctx, C, doc, "register", "register")
    back = ctx.must(lambda: cls.from_abstract_repr(doc), C, "from_abstract_repr")
    if list(back.qubit_ids) != [str(q) for q in reg.qubit_ids]:
        ctx.fail(C, "ids", f"{reg.qubit_ids} -> {back.qubit_ids}")
    a = np.array([np.asarray(v.as_array()) for v in reg.qubits.values()])
    b = np.array([np.asarray(v.as_array()) for v in back.qubits.values()])
    if a.shape != b.shape or not np.array_equal(a, b):
        ctx.fail(C, "coords", f"{a.tolist()} -> {b.tolist()}")
    if (reg.layout is None) != (back.layout is None) or (reg.layout is not None and (
            reg.layout != back.layout or reg.layout.slug != back.layout.slug
            or tuple(reg._layout_info.trap_ids) != tuple(back._layout_info.trap_ids))):
        ctx.fail(C, "layout", "")
    if not (back == reg):
        ctx.fail(C, "roundtrip:eq", "")
    s = ctx.must(lambda: json.dumps(reg, cls=PulserEncoder), C, "legacy encode")
    b2 = ctx.must(lambda: json.loads(s, cls=PulserDecoder), C, "legacy decode")
    if not (b2 == reg) or (reg.layout is not None and b2.layout != reg.layout):
        ctx.fail(C, "legacy:register", "")
    if reg.layout is not None:
        lay = reg.layout
        ld = ctx.must(lambda: lay.to_abstract_repr(), C, "layout.to_abstract_repr")
        schema_ok(ctx, C, ld, "layout", "layout")
        lb = ctx.must(lambda: RegisterLayout.from_abstract_repr(ld), C, "layout.from_abstract_repr")
        if lb != lay or lb.slug != lay.slug or not np.array_equal(lb.coords, lay.coords):
            ctx.fail(C, "layout_roundtrip", "")
        l2 = ctx.must(lambda: json.loads(json.dumps(lay, cls=PulserEncoder), cls=PulserDecoder), C, "legacy layout")
        if l2 != lay or l2.slug != lay.slug:
            ctx.fail(C, "legacy:layout", "")
    dm = ctx.must(lambda: reg.define_detuning_map(
        {q: w for q, w in zip(reg.qubit_ids, case["weights"])}, slug=case["slug"]), C, "define_detuning_map")
    d2 = ctx.must(lambda: json.loads(json.dumps(dm, cls=PulserEncoder), cls=PulserDecoder), C, "legacy detmap")
    if d2 != dm or d2.slug != dm.slug or tuple(d2.weights) != tuple(dm.weights) or not np.array_equal(
            d2.trap_coordinates, dm.trap_coordinates):
        ctx.fail(C, "legacy:detuning_map", "")
    # abstract representation of detuning maps (2D only: the schema has no z), for the map
    # of the register (traps in qubit order) and for one with the traps given in a drawn order
    if spec["dim"] == 2:
        from pulser.json.abstract_repr.deserializer import _deserialize_det_map
        from pulser.json.abstract_repr.serializer import AbstractReprEncoder
        from pulser.register.weight_maps import DetuningMap

        def wmap(m):
            return {tuple(np.round(np.asarray(c, dtype=float), 6).tolist()): float(w)
                    for c, w in zip(m.trap_coordinates, m.weights)}

        perm = case.get("perm") or list(range(len(dm.weights)))
        perm = [i for i in perm if i < len(dm.weights)] + [i for i in range(len(dm.weights)) if i not in perm]
        coords = [list(map(float, dm.trap_coordinates[i])) for i in perm]
        dm_perm = ctx.must(lambda: DetuningMap(coords, [float(dm.weights[i]) for i in perm], slug=case["slug"]),
                           C, "DetuningMap(permuted traps)")
        for what, m in (("register_order", dm), ("given_order", dm_perm)):
            jd = ctx.must(lambda: json.loads(json.dumps(m, cls=AbstractReprEncoder)), C, "detuning map abstract repr")
            if sorted(jd) not in (["traps"], ["slug", "traps"]) or any(
                    sorted(t) != ["weight", "x", "y"] for t in jd["traps"]):
                ctx.fail(C, "detuning_map:abstract_form", f"{jd}")
            mb = ctx.must(lambda: _deserialize_det_map(jd), C, "detuning map decode")
            if wmap(mb) != wmap(m) or mb.slug != m.slug:
                ctx.fail(C, f"detuning_map:abstract_roundtrip:{what}", f"{wmap(m)} -> {wmap(mb)}")
            if mb != m:
                ctx.fail(C, f"detuning_map:abstract_roundtrip_eq:{what}", "")
        if len(set(map(float, dm.weights))) > 1:
            ctx.label("detuning_map_distinct_weights")


# ------------------------------------------------------------------ configs
EIG = [["r", "g"], ["g", "h"], ["u", "d"], ["r", "g", "h"], ["0", "1"], ["r", "g", "x"]]


@st.composite
def state_specs(draw, eig=None, n=None):
    eig = eig or draw(st.sampled_from(EIG))
    n = n or draw(st.integers(1, 3))
    k = draw(st.integers(1, 4))
    amps = {}
    for _ in range(k):
        bs = "".join(draw(st.sampled_from(eig)) for _ in range(n))
        amps[bs] = [draw(st.sampled_from([1.0, 0.5, -0.5, 0.0, 0.25])), draw(st.sampled_from([0.0, 0.0, 0.5, -1.0]))]
    return dict(eigenstates=eig, n=n, amps=amps)


@st.composite
def op_specs(draw, eig=None, n=None):
    eig = eig or draw(st.sampled_from(EIG))
    n = n or draw(st.integers(1, 3))
    terms = []
    for _ in range(draw(st.integers(1, 3))):
        free = list(range(n))
        tensor = []
        for _ in range(draw(st.integers(0, 2))):
            if not free:
                break
            k = draw(st.integers(1, len(free)))
            inds = free[:k]
            free = free[k:]
            qop = {}
            for _ in range(draw(st.integers(1, 2))):
                key = draw(st.sampled_from(eig)) + draw(st.sampled_from(eig))
                qop[key] = [draw(st.sampled_from([1.0, -1.0, 0.5])), draw(st.sampled_from([0.0, 0.0, 1.0]))]
            tensor.append([qop, inds])
        terms.append([[draw(st.sampled_from([1.0, 0.5, -2.0])), draw(st.sampled_from([0.0, 0.0, 0.25]))], tensor])
    return dict(eigenstates=eig, n=n, terms=terms)


def mk_state(spec, cls):
    amps = {k: complex(v[0], v[1]) for k, v in spec["amps"].items()}
    nrm = math.sqrt(sum(abs(a) ** 2 for a in amps.values()))
    if nrm == 0:
        amps = {k: 1.0 for k in list(amps)[:1]}
        nrm = 1.0
    amps = {k: (a / nrm if a.imag else a.real / nrm) for k, a in amps.items()}
    return cls.from_state_amplitudes(eigenstates=tuple(spec["eigenstates"]), amplitudes=amps)


def mk_op(spec, cls):
    ops = []
    for coeff, tensor in spec["terms"]:
        c = complex(coeff[0], coeff[1]) if coeff[1] else coeff[0]
        t = [({k: (complex(v[0], v[1]) if v[1] else v[0]) for k, v in qop.items()}, set(inds))
             for qop, inds in tensor]
        ops.append((c, t))
    return cls.from_operator_repr(eigenstates=tuple(spec["eigenstates"]), n_qudits=spec["n"], operations=ops)


@st.composite
def config_cases(draw):
    eig = draw(st.sampled_from(EIG[:4]))
    n = draw(st.integers(1, 3))
    obs = []
    kinds = draw(st.lists(st.sampled_from(["bitstrings", "occupation", "correlation_matrix", "energy",
                                           "energy_variance", "energy_second_moment", "fidelity",
                                           "expectation"]), min_size=0, max_size=5, unique=True))
    for k in kinds:
        o = dict(kind=k)
        if draw(st.booleans()):
            o["evaluation_times"] = sorted(set(draw(st.lists(
                st.sampled_from([0.0, 0.25, 0.5, 1.0, 1 / 3]), min_size=1, max_size=3))))
        if draw(st.booleans()):
            o["tag_suffix"] = draw(st.sampled_from(["a", "run_1"]))
        if k == "bitstrings":
            if draw(st.booleans()):
                o["num_shots"] = draw(st.sampled_from([1, 100, 1000]))
        if k in ("bitstrings", "occupation", "correlation_matrix") and draw(st.booleans()):
            o["one_state"] = draw(st.sampled_from(eig))
        if k == "fidelity":
            o["state"] = draw(state_specs(eig, n))
        if k == "expectation":
            o["operator"] = draw(op_specs(eig, n))
        obs.append(o)
    cfg = dict(eig=eig, n=n, observables=obs, qutip=draw(st.booleans()))
    if draw(st.booleans()):
        cfg["default_evaluation_times"] = draw(st.sampled_from(["Full", [1.0], [0.0, 0.5, 1.0], [0.1]]))
    if draw(st.booleans()):
        cfg["initial_state"] = draw(state_specs(eig, n))
    if draw(st.booleans()):
        cfg["with_modulation"] = draw(st.booleans())
    if draw(st.booleans()):
        cfg["prefer_device_noise_model"] = draw(st.booleans())
    if draw(st.booleans()):
        cfg["noise_model"] = draw(noise_kwargs())
    if cfg["qutip"] and draw(st.booleans()):
        cfg["sampling_rate"] = draw(st.sampled_from([1.0, 0.5, 0.1]))
    if not cfg["qutip"] and draw(st.integers(0, 3)) == 0:
        cfg["interaction_matrix"] = [[0.0, 1.5, 0.2], [1.5, 0.0, 3.0], [0.2, 3.0, 0.0]][:n]
        cfg["interaction_matrix"] = [row[:n] for row in cfg["interaction_matrix"]]
    return cfg


def mk_config(cfg):
    from pulser.backend import (BitStrings, CorrelationMatrix, EmulationConfig, Energy,
                                EnergySecondMoment, EnergyVariance, Expectation, Fidelity,
                                Occupation)
    from pulser.backend.operator import OperatorRepr
    from pulser.backend.state import StateRepr
    from pulser_simulation import QutipConfig, QutipOperator, QutipState

    scls, ocls = (QutipState, QutipOperator) if cfg["qutip"] else (StateRepr, OperatorRepr)
    obs = []
    for o in cfg["observables"]:
        kw = {k: o[k] for k in ("evaluation_times", "tag_suffix", "num_shots", "one_state") if k in o}
        k = o["kind"]
        if k == "bitstrings":
            obs.append(BitStrings(**kw))
        elif k == "occupation":
            obs.append(Occupation(**kw))
        elif k == "correlation_matrix":
            obs.append(CorrelationMatrix(**kw))
        elif k == "energy":
            obs.append(Energy(**kw))
        elif k == "energy_variance":
            obs.append(EnergyVariance(**kw))
        elif k == "energy_second_moment":
            obs.append(EnergySecondMoment(**kw))
        elif k == "fidelity":
            obs.append(Fidelity(mk_state(o["state"], scls), **kw))
        elif k == "expectation":
            obs.append(Expectation(mk_op(o["operator"], ocls), **kw))
    kw = {}
    for k in ("default_evaluation_times", "with_modulation", "prefer_device_noise_model",
              "sampling_rate", "interaction_matrix"):
        if k in cfg:
            kw[k] = cfg[k]
    if "initial_state" in cfg:
        kw["initial_state"] = mk_state(cfg["initial_state"], scls)
    if "noise_model" in cfg:
        kw["noise_model"] = mk_noise(cfg["noise_model"])
    cls = QutipConfig if cfg["qutip"] else EmulationConfig
    return cls(observables=obs, **kw), cls


def obs_sig(o):
    d = dict(type=type(o).__name__, tag=o.tag,
             evaluation_times=None if o.evaluation_times is None else [float(x) for x in o.evaluation_times])
    for k in ("num_shots", "one_state"):
        if hasattr(o, k):
            d[k] = getattr(o, k)
    if hasattr(o, "state"):
        d["state"] = json.loads(json.dumps(o.state._to_abstract_repr(), default=_cj))
    if hasattr(o, "operator"):
        d["operator"] = json.loads(json.dumps(o.operator._to_abstract_repr(), default=_cj))
    return d


def _cj(x):
    if isinstance(x, complex):
        return {"real": x.real, "imag": x.imag}
    if isinstance(x, (set, frozenset)):
        return sorted(x)
    if isinstance(x, np.ndarray):
        return x.tolist()
    if isinstance(x, tuple):
        return list(x)
    raise TypeError(type(x))


def check_config(case, ctx: Ctx):
    C = "C17.config"
    try:
        cfg, cls = mk_config(case)
    except (ValueError, TypeError, NotImplementedError) as e:
        ctx.label("refused:" + type(e).__name__)
        return
    n_opt = sum(1 for k in ("default_evaluation_times", "initial_state", "with_modulation",
                            "prefer_device_noise_model", "noise_model", "sampling_rate",
                            "interaction_matrix") if k in case)
    ctx.nontrivial(n_opt + len(case["observables"]) >= 2)
    ctx.label("QutipConfig" if case["qutip"] else "EmulationConfig")
    for o in case["observables"]:
        ctx.label("obs:" + o["kind"])
    doc = ctx.must(lambda: cfg.to_abstract_repr(), C, "to_abstract_repr")
    schema_ok(ctx, C, doc, "config", "config")
    back = ctx.must(lambda: cls.from_abstract_repr(doc), C, "from_abstract_repr")
    a = [obs_sig(o) for o in cfg.observables]
    b = [obs_sig(o) for o in back.observables]
    if a != b:
        i = next((i for i, (x, y) in enumerate(zip(a, b)) if x != y), min(len(a), len(b)))
        ctx.fail(C, "roundtrip:observable:" + (a[i]["type"] if i < len(a) else "count"),
                 f"{a[i] if i < len(a) else None} -> {b[i] if i < len(b) else None}")
    det = cfg.default_evaluation_times
    det2 = back.default_evaluation_times
    if (isinstance(det, str) != isinstance(det2, str)) or (
            isinstance(det, str) and det != det2) or (
            not isinstance(det, str) and not np.array_equal(np.asarray(det, float), np.asarray(det2, float))):
        ctx.fail(C, "roundtrip:default_evaluation_times", f"{det!r} -> {det2!r}")
    for k in ("with_modulation", "prefer_device_noise_model") + (("sampling_rate",) if case["qutip"] else ()):
        if getattr(cfg, k) != getattr(back, k):
            ctx.fail(C, f"roundtrip:{k}", f"{getattr(cfg, k)!r} -> {getattr(back, k)!r}")
    badn = noise_fields_equal(cfg.noise_model, back.noise_model)
    if badn:
        from pulser.noise_model import NoiseModel as _NM

        nm_ = cfg.noise_model
        rel = _NM._find_relevant_params(nm_.noise_types, nm_.state_prep_error, nm_.amp_sigma, nm_.laser_waist)
        ctx.fail(C, "roundtrip:noise_model:" + ("field:" + badn if badn in rel else "irrelevant_param_dropped"),
                 f"{badn}: {getattr(nm_, badn)!r} -> {getattr(back.noise_model, badn)!r}", cont=True)
    s1, s2 = cfg.initial_state, back.initial_state
    if (s1 is None) != (s2 is None) or (s1 is not None and json.loads(
            json.dumps(s1._to_abstract_repr(), default=_cj)) != json.loads(
            json.dumps(s2._to_abstract_repr(), default=_cj))):
        ctx.fail(C, "roundtrip:initial_state", "")
    im1, im2 = cfg.interaction_matrix, back.interaction_matrix
    if (im1 is None) != (im2 is None) or (im1 is not None and not np.array_equal(
            np.asarray(im1.as_array() if hasattr(im1, "as_array") else im1),
            np.asarray(im2.as_array() if hasattr(im2, "as_array") else im2))):
        ctx.fail(C, "roundtrip:interaction_matrix", "")
    doc2 = ctx.must(lambda: back.to_abstract_repr(), C, "re-encode")
    if json.loads(doc2) != json.loads(doc) and not badn:
        ctx.fail(C, "reencode_differs", "")


# ------------------------------------------------------------------ results
@st.composite
def results_cases(draw):
    n_obs = draw(st.integers(0, 4))
    obs = []
    for i in range(n_obs):
        times = sorted(set(draw(st.lists(st.sampled_from([0.0, 0.1, 0.25, 0.5, 1 / 3, 1.0]), min_size=1, max_size=4))))
        kind = draw(st.sampled_from(["float", "list", "matrix", "counter", "int", "str", "none", "array", "nested",
                                     "complex", "complex_list"]))
        obs.append(dict(tag=f"obs{i}_" + kind, times=times, kind=kind))
    return dict(atoms=draw(st.sampled_from([["q0"], ["q0", "q1"], ["a", "b", "c"]])),
                duration=draw(st.sampled_from([0, 100, 1234])), obs=obs)


def check_results(case, ctx: Ctx):
    import collections
    import uuid

    from pulser.backend.results import Results

    C = "C17.results"
    res = Results(atom_order=tuple(case["atoms"]), total_duration=case["duration"])
    for i, o in enumerate(case["obs"]):
        u = uuid.UUID(int=i + 1)
        for j, t in enumerate(o["times"]):
            v = {"float": 0.5 * j - 0.1, "list": [0.1 * j, 1.0], "matrix": [[1.0, j], [j, 0.0]],
                 "counter": collections.Counter({"01": 3 + j, "10": 1}), "int": j, "str": f"s{j}",
                 "none": None, "array": np.array([1.0, 2.5 * j]),
                 "nested": {"a": [1, 2], "b": {"c": 0.5}},
                 # (what Expectation / Fidelity store for a non-Hermitian operator or a complex overlap)
                 "complex": complex(0.5 * j, -1.25), "complex_list": [1 + 2j, complex(j, 0.5)]}[o["kind"]]
            res._store_raw(uuid=u, tag=o["tag"], time=t, value=v)
    ctx.nontrivial(len(case["obs"]) >= 2)
    doc = ctx.must(lambda: res.to_abstract_repr(), C, "to_abstract_repr")
    schema_ok(ctx, C, doc, "results", "results")
    back = ctx.must(lambda: Results.from_abstract_repr(doc), C, "from_abstract_repr")
    if back.atom_order != res.atom_order or back.total_duration != res.total_duration:
        ctx.fail(C, "header", "")
    if back.get_result_tags() != res.get_result_tags():
        ctx.fail(C, "tags", f"{res.get_result_tags()} -> {back.get_result_tags()}")
    for o in case["obs"]:
        if back.get_result_times(o["tag"]) != res.get_result_times(o["tag"]):
            ctx.fail(C, "times", o["tag"])
        x = json.loads(json.dumps(getattr(res, o["tag"]), default=_cj))
        y = json.loads(json.dumps(getattr(back, o["tag"]), default=_cj))
        if x != y:
            ctx.fail(C, f"values:{o['kind']}", f"{x} -> {y}")
        if o["kind"].startswith("complex"):
            # numbers come back as numbers (usable in arithmetic), not as their JSON form
            for a_, b_ in zip(getattr(res, o["tag"]), getattr(back, o["tag"])):
                try:
                    same = np.allclose(np.asarray(a_, dtype=complex), np.asarray(b_, dtype=complex))
                except (TypeError, ValueError):
                    same = False
                if not same:
                    ctx.fail(C, "values:complex_not_restored", f"stored {a_!r}, decoded {b_!r}")
        for t in o["times"]:
            ctx.must(lambda: back.get_result(o["tag"], t), C, "get_result")
    doc2 = ctx.must(lambda: back.to_abstract_repr(), C, "re-encode")
    if json.loads(doc2) != json.loads(doc):
        ctx.fail(C, "reencode_differs", "")


# ------------------------------------------------------------------ aliasing
@st.composite
def alias_cases(draw):
    eig = draw(st.sampled_from(EIG[:4]))
    n1 = draw(st.integers(1, 3))
    n2 = draw(st.integers(1, 4))
    return dict(a=draw(state_specs(eig, n1)), b=draw(state_specs(draw(st.sampled_from(EIG[:4])), n2)),
                oa=draw(op_specs(eig, n1)), ob=draw(op_specs(eig, n2)),
                kind=draw(st.sampled_from(["repr", "qutip"])))


def check_alias(case, ctx: Ctx):
    from pulser.backend import EmulationConfig, Occupation
    from pulser.backend.operator import OperatorRepr
    from pulser.backend.state import StateRepr
    from pulser.noise_model import NoiseModel
    from pulser_simulation import QutipOperator, QutipState

    C = "C17.aliasing"
    scls, ocls = (StateRepr, OperatorRepr) if case["kind"] == "repr" else (QutipState, QutipOperator)
    ctx.nontrivial(case["a"]["n"] != case["b"]["n"])
    ctx.label(case["kind"])
    a = ctx.must(lambda: mk_state(case["a"], scls), C, "state A")
    before = (a.n_qudits, a.eigenstates, json.dumps(a._to_abstract_repr(), default=_cj, sort_keys=True))
    b = ctx.must(lambda: mk_state(case["b"], scls), C, "state B")
    after = (a.n_qudits, a.eigenstates, json.dumps(a._to_abstract_repr(), default=_cj, sort_keys=True))
    if before != after:
        what = "n_qudits" if before[0] != after[0] else "eigenstates" if before[1] != after[1] else "amplitudes"
        ctx.fail(C, f"state:{case['kind']}:{what}",
                 f"building a {b.n_qudits}-qudit state changed an existing state: {before} -> {after}")
    if a.n_qudits != case["a"]["n"]:
        ctx.fail(C, f"state:{case['kind']}:n_qudits_wrong", f"{a.n_qudits} != {case['a']['n']}")
    oa = ctx.must(lambda: mk_op(case["oa"], ocls), C, "operator A")
    ob0 = json.dumps(oa._to_abstract_repr(), default=_cj, sort_keys=True)
    ctx.must(lambda: mk_op(case["ob"], ocls), C, "operator B")
    if json.dumps(oa._to_abstract_repr(), default=_cj, sort_keys=True) != ob0:
        ctx.fail(C, f"operator:{case['kind']}", "building an operator changed another one")
    # default-argument objects are not shared mutable state
    c1 = EmulationConfig(observables=[Occupation()])
    nm_before = repr(c1.noise_model)
    c2 = EmulationConfig(observables=[Occupation(tag_suffix="x")], noise_model=NoiseModel(relaxation_rate=0.1))
    if repr(c1.noise_model) != nm_before or c1.noise_model.relaxation_rate != 0.0:
        ctx.fail(C, "config:noise_model", "")
    if c1._backend_options is c2._backend_options or [o.tag for o in c1.observables] != ["occupation"]:
        ctx.fail(C, "config:options", "")
    # two configurations made one after the other from the same working objects (a matrix buffer
    # that is refilled, a list of observables that is extended): the second construction and
    # what precedes it never change the first
    from pulser.backend import BitStrings

    n = 2 + case["a"]["n"] % 3
    buf = np.array([[0.0 if i == j else 1.0 + abs(i - j) for j in range(n)] for i in range(n)])
    obs = [BitStrings(evaluation_times=[0.25, 0.5], num_shots=50), Occupation()]
    cA = ctx.must(lambda: EmulationConfig(observables=obs, interaction_matrix=buf), C, "config A")
    jA = cA.to_abstract_repr()
    buf *= 2.0
    obs.append(Occupation(tag_suffix="later"))
    cB = ctx.must(lambda: EmulationConfig(observables=obs, interaction_matrix=buf), C, "config B")
    if cA.to_abstract_repr() != jA:
        d = _first_diff(json.loads(jA), json.loads(cA.to_abstract_repr())) if "_first_diff" in globals() else ""
        ctx.fail(C, "config:changed_by_building_another_from_the_same_objects",
                 f"the first configuration's representation changed after its matrix buffer / observable list "
                 f"were reused for a second one {d}")
    if len(cB.observables) != 3 or np.max(np.abs(np.asarray(cB.interaction_matrix.as_array() if hasattr(
            cB.interaction_matrix, "as_array") else cB.interaction_matrix) - buf)) > 0:
        ctx.fail(C, "config:second_config_wrong", "")


CLAUSES = [
    Clause("noise", check_noise, gen=lambda t: noise_kwargs(),
           budget={"quick": (4, 300), "thorough": (16, 2500)}),
    Clause("device", check_device, gen=lambda t: device_cases(),
           budget={"quick": (4, 120), "thorough": (16, 1000)}),
    Clause("register", check_register, gen=lambda t: reg_cases(),
           budget={"quick": (2, 200), "thorough": (16, 1500)}),
    Clause("config", check_config, gen=lambda t: config_cases(),
           budget={"quick": (4, 200), "thorough": (16, 2000)}),
    Clause("results", check_results, gen=lambda t: results_cases(),
           budget={"quick": (1, 200), "thorough": (8, 1000)}),
    Clause("aliasing", check_alias, gen=lambda t: alias_cases(),
           budget={"quick": (1, 200), "thorough": (8, 1000)}),
]
