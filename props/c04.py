"""C04 - sequence serialisation round-trips and is schema-valid."""
from __future__ import annotations

import json

import numpy as np
from hypothesis import strategies as st

from pv import build, gen, gen_param, snapshot as snap
from pv.engine import Clause, Ctx
from props import c08, c17

RULE = (
    "Hypothesis-generated programs (every operation, waveform kind, protocol, "
    "positional/keyword calling style, optional arguments at default and "
    "non-default values; EOM, DMM, SLM in Ising and XY mode, magnetic field, "
    "measurement) on built-in, generated physical and virtual devices with "
    "concrete, layout-based and mappable registers, rebuilt from their "
    "successful calls; plus a parametrized variant (variable expressions + 1-3 "
    "assignments). Oracles: to_abstract_repr() succeeds, own jsonschema "
    "validation with the schema files, snapshot(from_abstract_repr(doc)) == "
    "snapshot(original) (device field by field, register, timeline, pulses, "
    "phase trackers, measurement, SLM, field), built sequences equal for every "
    "assignment, idempotent encoding; the same for the legacy codec on built-in "
    "and virtual devices. Non-trivial: >=5 successful ops of >=3 kinds and >=1 "
    "optional argument at a non-default value (parametrized: >=1 expression); "
    "distinct = distinct canonical JSON."
)
ASSUMPTIONS = [
    "excluded by construction as not exportable: CustomWaveform whose samples are a variable (no schema form), interp1d / interpolator kwargs",
    "jsonschema + schema files on disk; Python json float round trip",
    "call logs and channel order are not part of 'behaviourally identical'",
]


def profile(tier):
    dev = st.one_of(
        gen.device_specs(n_channels=(1, 4), allow_builtin=True,
                         chan_kw={"bandwidth": [None, None, 8, 40]}),
        gen.device_specs(n_channels=(1, 4), allow_builtin=True,
                         chan_kw={"bandwidth": [None, None, 8, 40]}),
        gen.device_specs(mode="xy", n_channels=(1, 2), allow_builtin=True,
                         chan_kw={"bandwidth": [None, 8]}),
    )
    return {
        "fault_pct": 2, "min_ops": 5, "max_ops": 22 if tier == "quick" else 35,
        "min_channels": 1, "stop_at_measure_p": 9, "magfield": True,
        "weights": {"declare": 6, "declare_more": 2, "add": 12, "align": 2, "delay": 3,
                    "phase_shift": 3, "target": 4, "eom": 5, "add_dmm": 3, "detmap": 2,
                    "slm": 2, "measure": 2},
        "device": dev,
        "register": st.one_of(gen.register_specs(n=(1, 5)), gen.register_specs(n=(1, 5), int_ids=2),
                              gen.register_specs(n=(2, 5), mappable=True, dim=2)),
    }


def _has_ikw(x):
    if isinstance(x, dict):
        return bool(x.get("ikw")) or any(_has_ikw(v) for v in x.values())
    if isinstance(x, list):
        return any(_has_ikw(v) for v in x)
    return False


@st.composite
def cases(draw, tier, unexportable=False, eom=False):
    prof = profile(tier)
    if eom:
        # EOM-heavy programs (enable / modify / pulses / disable, with and without drift correction):
        # what the corrections do internally must not leak into what is exported
        prof = dict(prof, min_ops=6, max_ops=20,
                    weights={"declare": 6, "declare_more": 1, "add": 6, "align": 1, "delay": 2,
                             "phase_shift": 1, "target": 1, "eom": 14, "measure": 1},
                    device=gen.device_specs(n_channels=(1, 2), allow_builtin=False, allow_dmm=False,
                                            chan_kw={"kind": "Rydberg", "eom": True, "bandwidth": [8, 40]}),
                    register=gen.register_specs(n=(1, 3)))
    if unexportable:
        # interpolated waveforms with scipy's interp1d and its keyword arguments have no form in
        # the published schema: the abstract encoder may refuse them, it must not export
        # something else (the legacy codec carries them)
        prof = dict(prof, max_ops=10, min_ops=3,
                    weights=dict(prof["weights"], add=20, eom=0, add_dmm=1, detmap=1))
        gen.INTERP_KWARGS = 2
    try:
        base = c08.normalise(draw(gen.programs(prof)))
    finally:
        gen.INTERP_KWARGS = False
    if draw(st.integers(0, 5)) == 0 and not unexportable:
        # a variable that is declared and never used: the sequence stays an ordinary one
        pos = draw(st.integers(0, len(base["ops"])))
        base = dict(base, ops=base["ops"][:pos] + [dict(op="declare_var", name="unused", size=draw(
            st.sampled_from([None, 2])), dtype=draw(st.sampled_from(["float", "int"])))] + base["ops"][pos:])
    out = dict(base=base, codec=draw(st.sampled_from(["abstract", "abstract", "legacy"])))
    if unexportable and _has_ikw(base):
        out["unexportable"] = True
    if draw(st.booleans()) or unexportable:
        # (the published schema has no variable form for CustomWaveform samples:
        #  that construct is not exportable and is excluded by construction)
        pp = draw(gen_param.parametrized(base, rate=draw(st.sampled_from([15, 40, 70] if unexportable else [15, 40])),
                                         custom_var=False))
        out["param"] = pp
        out["with_defaults"] = draw(st.booleans())
    reg = base["register"]
    if reg.get("mappable"):
        n = reg["mappable"]
        k = draw(st.integers(1, n))
        ntr = len(reg["layout"]["coords"])
        out["mapping"] = dict(k=k, traps=list(draw(st.permutations(list(range(ntr)))))[:k],
                              order=list(draw(st.permutations(list(range(k))))))
    return out


def sstrip(s):
    s = dict(s)
    for k in ("calls", "to_build_calls"):
        s.pop(k, None)
    return s


def seq_equal(ctx, C, what, a, b):
    """a: original, b: decoded."""
    from pulser.devices import Device

    sa, sb = sstrip(snap.snapshot(a)), sstrip(snap.snapshot(b))
    d = snap.diff(sa, sb)
    if d:
        ctx.fail(C, f"{what}:" + snap.diff_key(d), f"{what}: original vs decoded: {d}")
    dd = c17.dataclass_diff(a.device, b.device)
    if dd:
        fld = dd.split(":")[0].split("[")[0].strip(".")
        if fld in ("default_noise_model.runs", "default_noise_model.samples_per_run"):
            return
        ctx.fail(C, f"{what}:device:{fld}", dd)
    if isinstance(a.device, Device) != isinstance(b.device, Device):
        ctx.fail(C, f"{what}:device_class", "")


def own_schema(ctx, C, doc):
    c17.schema_ok(ctx, C, doc, "sequence", "sequence")


def check(case, ctx: Ctx):
    from pulser import Sequence

    C = "C04.roundtrip"
    base = case["base"]
    codec = case["codec"]
    it = ctx.must(lambda: build.Interp(base), C, "base construction")
    for op in base["ops"]:
        r, exc = it.apply(op)
        if r != "ok" and not base["register"].get("mappable"):
            ctx.label("normalised_op_failed_on_rebuild")
            return
    seq = it.seq
    kinds = {op["op"] for op in base["ops"]}
    nondefault = any(("protocol" in op) or ("at_rest" in op) or ("cpd" in op) or ("pps" in op.get("pulse", {}))
                     or op.get("initial_target") or ("basis" in op) or ("opt_off" in op)
                     for op in base["ops"])
    ctx.nontrivial(bool(case.get("unexportable")) or (len(base["ops"]) >= 5 and len(kinds) >= 3 and nondefault))
    ctx.label(codec, base["device"]["type"],
              "mappable" if base["register"].get("mappable") else
              ("layout" if base["register"].get("layout") else "plain_register"))
    for k in kinds:
        ctx.label("op:" + k)
    legacy_ok = base["device"]["type"] in ("builtin", "virtual")
    if codec == "legacy" and not legacy_ok:
        codec = "abstract"

    def enc(s, **kw):
        return s.to_abstract_repr(**kw) if codec == "abstract" else s._serialize()

    def dec(doc):
        return Sequence.from_abstract_repr(doc) if codec == "abstract" else Sequence._deserialize(doc)

    unexp = bool(case.get("unexportable")) and codec == "abstract"
    if unexp:
        C = "C04.unexportable"
        try:
            enc(seq)
        except Exception:  # noqa: BLE001 - refusing a construct the schema cannot carry
            ctx.label("built:refused")
            return _check_param(case, ctx, codec, dec, None)
        ctx.label("built:exported")
    doc = ctx.must(lambda: enc(seq), C, f"{codec}: encode")
    if codec == "abstract":
        own_schema(ctx, C, doc)
    doc_again = ctx.must(lambda: enc(seq), C, f"{codec}: encode again")
    if json.loads(doc_again) != json.loads(doc):
        ctx.fail(C, f"{codec}:encode_not_idempotent", "")
    back = ctx.must(lambda: dec(doc), C, f"{codec}: decode")
    seq_equal(ctx, C, f"{codec}:built", seq, back)
    doc2 = ctx.must(lambda: enc(back), C, f"{codec}: re-encode decoded")
    if codec == "abstract" and json.loads(doc2) != json.loads(doc):
        ctx.fail(C, "abstract:reencode_differs", _first_json_diff(json.loads(doc), json.loads(doc2)))
    # mappable: build with the mapping on both sides
    qmap = None
    if base["register"].get("mappable"):
        m = case["mapping"]
        ids = build.register_qubit_ids(base['register'])[:m["k"]]
        qmap = {ids[i]: m["traps"][i] for i in m["order"]}
        if not seq.is_parametrized():
            outcomes = []
            for s_ in (seq, back):
                try:
                    outcomes.append(s_.build(qubits=qmap))
                except Exception as e:  # noqa: BLE001
                    outcomes.append(e)
            if isinstance(outcomes[0], Exception) != isinstance(outcomes[1], Exception):
                ctx.fail(C, f"{codec}:mappable_build_outcome", f"{outcomes}")
            elif not isinstance(outcomes[0], Exception):
                seq_equal(ctx, C, f"{codec}:mappable_built", outcomes[0], outcomes[1])
    return _check_param(case, ctx, codec, dec, qmap)


def _check_param(case, ctx, codec, dec, qmap):
    # ---- parametrized variant
    pp = case.get("param")
    if not pp:
        return
    unexp = bool(case.get("unexportable")) and codec == "abstract"
    CP = "C04.unexportable" if case.get("unexportable") else "C04.parametrized"
    tit, status = ctx.must(lambda: c08.run_template(pp, ctx, CP), CP, "template construction")
    T = tit.seq
    if not T.is_parametrized():
        return
    ctx.label("parametrized")
    kw = {}
    if case.get("with_defaults") and codec == "abstract":
        kw = dict(pp["assignments"][0])
        if qmap is not None:
            kw["qubits"] = qmap
    try:
        pdoc = T.to_abstract_repr(**kw) if codec == "abstract" else T._serialize()
    except Exception as e:  # noqa: BLE001
        if unexp:
            ctx.label("template:refused")
            return
        # a template whose build fails may legitimately fail to serialise with defaults
        if kw:
            try:
                T.build(**{k: v for k, v in kw.items() if k != "qubits"}, **({"qubits": qmap} if qmap else {}))
            except Exception:  # noqa: BLE001
                ctx.label("defaults_do_not_build")
                return
        ctx.fail(CP, f"{codec}:encode:{type(e).__name__}", f"{type(e).__name__}: {str(e)[:300]}")
        return
    if codec == "abstract":
        own_schema(ctx, CP, pdoc)
        if kw:
            dv = json.loads(pdoc).get("variables", {})
            for name, val in pp["assignments"][0].items():
                got = dv.get(name, {}).get("value")
                exp = val if isinstance(val, list) else [val]
                if got is None or not np.allclose(np.array(got, dtype=float), np.array(exp, dtype=float), rtol=0, atol=0):
                    ctx.fail(CP, "defaults_not_stored", f"{name}: {got} vs {exp}")
    if unexp:
        ctx.label("template:exported")
    Tb = ctx.must(lambda: dec(pdoc), CP, f"{codec}: decode parametrized")
    if not Tb.is_parametrized():
        ctx.fail(CP, f"{codec}:decoded_not_parametrized", "")
    if set(Tb.declared_variables) != set(T.declared_variables):
        ctx.fail(CP, f"{codec}:variables", f"{sorted(T.declared_variables)} -> {sorted(Tb.declared_variables)}")
    for j, vals in enumerate(pp["assignments"]):
        res = []
        for s_ in (T, Tb):
            try:
                res.append(s_.build(qubits=qmap, **vals) if qmap is not None else s_.build(**vals))
            except Exception as e:  # noqa: BLE001
                res.append(e)
        if isinstance(res[0], Exception) != isinstance(res[1], Exception):
            ctx.fail(CP, f"{codec}:build_outcome_differs",
                     f"assignment {j}: original -> {res[0]!r}; decoded -> {res[1]!r}")
        elif not isinstance(res[0], Exception):
            seq_equal(ctx, CP, f"{codec}:built_from_decoded", res[0], res[1])
            if j == 0 and not unexp and not case.get("unexportable") and qmap is None:
                # the built sequence is a sequence like any other: it exports and comes back the same
                # (its record holds what the variables became: numpy integers, 0-d arrays, ...).
                # Concrete registers only: a sequence built from a mappable register with fewer
                # traps than qubits keeps calls and references that name the unmapped qubits.
                from pulser import Sequence as _Seq

                bseq = res[0]
                enc_b = (lambda: bseq.to_abstract_repr()) if codec == "abstract" else (lambda: bseq._serialize())
                bdoc = ctx.must(enc_b, CP, f"{codec}: encode the built sequence")
                if codec == "abstract":
                    own_schema(ctx, CP, bdoc)
                bback = ctx.must(lambda: dec(bdoc), CP, f"{codec}: decode the built sequence")
                seq_equal(ctx, CP, f"{codec}:built_then_exported", bseq, bback)


def _first_json_diff(a, b, path=""):
    if type(a) is not type(b):
        return f"{path}: {a!r} vs {b!r}"[:300]
    if isinstance(a, dict):
        for k in sorted(set(a) | set(b)):
            if k not in a or k not in b:
                return f"{path}/{k}: only on one side"
            d = _first_json_diff(a[k], b[k], f"{path}/{k}")
            if d:
                return d
        return ""
    if isinstance(a, list):
        if len(a) != len(b):
            return f"{path}: length {len(a)} vs {len(b)}"
        for i, (x, y) in enumerate(zip(a, b)):
            d = _first_json_diff(x, y, f"{path}/{i}")
            if d:
                return d
        return ""
    return "" if a == b else f"{path}: {a!r} vs {b!r}"[:300]


CLAUSES = [
    Clause("roundtrip", check, gen=lambda t: cases(t),
           budget={"quick": (16, 80), "thorough": (16, 3000)},
           doc="abstract repr + legacy codec: schema, round trip, parametrized builds"),
    Clause("roundtrip_eom", check, gen=lambda t: cases(t, eom=True),
           budget={"quick": (16, 40), "thorough": (16, 1500)},
           doc="the same for EOM-heavy programs (drift-corrected enable / modify / disable / pulses)"),
    Clause("unexportable", check, gen=lambda t: cases(t, unexportable=True),
           budget={"quick": (16, 40), "thorough": (16, 600)},
           doc="programs with interp1d waveforms (no schema form): the abstract encoder refuses, or "
               "what it exports decodes to the same sequence / the same builds; legacy codec round trips"),
]
