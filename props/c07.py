"""C07 - phase references (virtual-Z) are additive and applied to every pulse."""
from __future__ import annotations

import math

import numpy as np
from hypothesis import strategies as st

from pv import gen, history
from pv.engine import Clause, Ctx

RULE = (
    "(a) Hypothesis-generated programs mixing phase_shift/phase_shift_index on "
    "arbitrary subsets and bases, pulses with post_phase_shift, retargeting, "
    "several channels per basis and EOM drift corrections, with phases in R "
    "(negative, >2pi, multiples of 2pi, +-1e-12); oracle: M3 running-sum model "
    "after every step. Non-trivial: >=2 non-zero shifts on the same (atom, "
    "basis) before a pulse that targets it. (b) physical clause: generated phi "
    "applied between two pi/2 pulses (explicit shift, post-phase-shift or "
    "split), digital and ground-rydberg bases, QutipEmulator population vs "
    "cos^2(phi/2); non-trivial: phi not a multiple of pi/2 within 1e-3. "
    "distinct = distinct canonical JSON."
)
ASSUMPTIONS = [
    "the value of an EOM drift correction is C15's subject; here the observed "
    "correction is required to be uniform over the channel's targets",
    "QuTiP sesolve accuracy; tolerance 5e-3 on the Ramsey population",
]
TWO_PI = 2 * math.pi


def profile(tier):
    return {
        # small negative shifts (a reference just below a full turn is not a reference of 0)
        "extra_phases": [-3e-5, -2e-5, -3e-5, TWO_PI - 2e-5, -1e-7],
        "fault_pct": 3, "min_ops": 6, "max_ops": 35 if tier == "quick" else 60,
        "min_channels": 2, "measure": False, "slm": False,
        "weights": {"declare": 7, "declare_more": 2, "add": 12, "align": 1,
                    "delay": 1, "phase_shift": 9, "target": 5, "eom": 4},
        "simple_pulses": True,
        "device": gen.device_specs(
            n_channels=(2, 4), allow_builtin=True,
            chan_kw={"bandwidth": [None, None, 8, 20, 40]}),
    }


def profile_shared(tier):
    """Several channels of ONE basis over 2 atoms: pulses of different channels overlap on an
    atom (protocol 'no-delay' included), so 'the latest pulse that used the atom' is not the
    most recently added one."""
    p = profile(tier)
    return dict(p, fault_pct=0, min_ops=8, max_ops=28,
                protocols=["no-delay", "no-delay", "min-delay", "wait-for-all"],
                weights={"declare": 8, "declare_more": 3, "add": 14, "align": 0, "delay": 1,
                         "phase_shift": 7, "target": 3, "eom": 0},
                device=gen.device_specs(n_channels=(2, 3), allow_builtin=False, allow_dmm=False,
                                        chan_kw={"kind": "Rydberg", "eom": False,
                                                 "bandwidth": [None, None, 8]}),
                register=gen.register_specs(n=(1, 2)))


def check(case, ctx: Ctx):
    w = history.Walker(case, ctx, {"C07"}).run()
    st_ = w.stats
    ctx.nontrivial(st_["nt_c07"] >= 1)
    if st_["nt_c07"]:
        ctx.label("pulse_after_>=2_shifts")
    if w.aborted:
        ctx.label("aborted_partial_effect(C09)")


# ------------------------------------------------------------------ physical
@st.composite
def ramsey_cases(draw):
    phi = draw(st.sampled_from([0.0, math.pi, math.pi / 2, -1.0, 7.0, TWO_PI, 2.5])
               | st.floats(-10, 10, allow_nan=False).map(lambda x: round(x, 6)))
    return dict(
        phi=phi,
        basis=draw(st.sampled_from(["digital", "ground-rydberg", "digital", "ground-rydberg", "XY"])),
        # (XY only) an SLM mask on the spectator atom and a shift before the first pulse
        slm=draw(st.booleans()), pre=draw(st.sampled_from([0.0, 1.3, -2.5])),
        how=draw(st.sampled_from(["shift", "pps", "split", "index", "all"])),
        omega=draw(st.sampled_from([math.pi, 2 * math.pi, 5.0])),
        phase0=draw(st.sampled_from([0.0, 1.0, -0.5])),
        gap=draw(st.sampled_from([0, 16, 100])),
    )


def check_ramsey(case, ctx: Ctx):
    from pulser import Pulse, Register, Sequence
    from pulser.devices import MockDevice
    from pulser_simulation import QutipEmulator

    C = "C07.physical"
    phi, basis, how = case["phi"], case["basis"], case["how"]
    om = case["omega"]
    dur = int(round((math.pi / 2) / om * 1e3))
    om = (math.pi / 2) / (dur * 1e-3)  # exact pi/2 area
    ctx.nontrivial(min(abs((phi / (math.pi / 2)) - round(phi / (math.pi / 2))), 1) > 1e-3)
    ctx.label(how, basis)
    if basis == "XY" and case.get("slm"):
        ctx.label("xy_slm_mask")

    def build():
        reg = Register({"q0": (0.0, 0.0), "far": (0.0, 500.0)})
        seq = Sequence(reg, MockDevice)
        if basis == "XY":
            # one global microwave channel: every shift is applied to both atoms (a global pulse
            # needs one reference); the far atom may sit under an SLM mask during the first pulse
            seq.declare_channel("ch", "mw_global")
            if case.get("slm"):
                seq.config_slm_mask(["far"])
            if case.get("pre"):
                seq.phase_shift(case["pre"], basis="XY")
            pps = phi if how == "pps" else (phi / 2 if how == "split" else 0.0)
            seq.add(Pulse.ConstantPulse(dur, om, 0.0, case["phase0"], post_phase_shift=pps), "ch")
            if case["gap"]:
                seq.delay(case["gap"], "ch")
            if how != "pps":
                seq.phase_shift(phi / 2 if how == "split" else phi, basis="XY")
            seq.add(Pulse.ConstantPulse(dur, om, 0.0, case["phase0"]), "ch")
            return seq
        chid = "raman_local" if basis == "digital" else "rydberg_local"
        seq.declare_channel("ch", chid, initial_target="q0")
        pps = phi if how == "pps" else (phi / 2 if how == "split" else 0.0)
        seq.add(Pulse.ConstantPulse(dur, om, 0.0, case["phase0"], post_phase_shift=pps), "ch")
        if case["gap"]:
            seq.delay(case["gap"], "ch")
        if how == "shift":
            seq.phase_shift(phi, "q0", basis=basis)
        elif how == "split":
            seq.phase_shift(phi / 2, "q0", basis=basis)
        elif how == "index":
            seq.phase_shift_index(phi, 0, basis=basis)
        elif how == "all":
            seq.phase_shift(phi, basis=basis)
        seq.add(Pulse.ConstantPulse(dur, om, 0.0, case["phase0"]), "ch")
        return seq

    seq = ctx.must(build, C, "build ramsey sequence")
    res = ctx.must(lambda: QutipEmulator.from_sequence(seq).run(), C, "emulate")
    st_ = res.get_final_state().full().reshape(-1)
    # two atoms: q0 (index 0, most significant) and a far spectator
    amp = st_.reshape(2, 2)
    # basis order: ground-rydberg (r,g), digital (g,h): excited = r (idx 0) / h (idx 1)
    # (XY: (u,d), starts in u, excited = d)
    exc_idx = 0 if basis == "ground-rydberg" else 1
    p_exc = float(np.sum(np.abs(amp[exc_idx, :]) ** 2))
    exp = math.cos(phi / 2) ** 2
    if abs(p_exc - exp) > 5e-3:
        ctx.fail(C, f"ramsey:{how}",
                 f"P(excited)={p_exc:.6f}, cos^2(phi/2)={exp:.6f} for phi={phi} ({basis})")


CLAUSES = [
    Clause("model", check, gen=lambda t: gen.programs(profile(t)),
           budget={"quick": (12, 200), "thorough": (16, 4000)},
           doc="C07.sum / C07.applied / C07.barrier per step against M3"),
    Clause("shared_basis", check, gen=lambda t: gen.programs(profile_shared(t)),
           budget={"quick": (8, 120), "thorough": (16, 2000)},
           doc="several channels of one basis over 1-2 atoms (overlapping pulses, no-delay)"),
    Clause("ramsey", check_ramsey, gen=lambda t: ramsey_cases(),
           budget={"quick": (4, 25), "thorough": (16, 200)},
           doc="two pi/2 pulses separated by a virtual-Z of phi: P = cos^2(phi/2)"),
]
