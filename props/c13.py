"""C13 - which building operations are accepted follows the documented typestate."""
from __future__ import annotations

import itertools
import math

from hypothesis import strategies as st

from pv import build, gen
from pv.engine import Clause, Ctx

TWO_PI = 2 * math.pi
RULE = (
    "Call sequences (<=12 calls quick, <=20 thorough) drawn uniformly over the "
    "whole building/inspection alphabet - including calls the current mode "
    "forbids - on three device families (physical non-reusable, virtual "
    "reusable, virtual non-reusable; the virtual ones XY-capable), with "
    "arguments that are individually valid so the mode is the only reason for "
    "refusal. Oracle: explicit typestate automaton M6 (must accept / must "
    "refuse / unspecified) + is_parametrized/is_measured/is_in_eom_mode/"
    "available_channels after every step. Plus exhaustive enumeration of all "
    "sequences of <=4 (quick) / <=5 (thorough) calls from a 12-call alphabet on "
    "the physical device. Non-trivial: >=1 refusal predicted and >=1 mode "
    "change; distinct = distinct canonical JSON."
)
ASSUMPTIONS = [
    "calls the statement does not classify are 'unspecified' in M6: either "
    "outcome is accepted and the model follows the observed outcome "
    "(phase_shift/set_magnetic_field/config_slm_mask interplay, delay/align on a "
    "local channel without target, everything deferred to build() in a "
    "parametrized sequence)",
]

EOM = dict(limiting_beam="RED", max_limiting_amp=30 * TWO_PI,
           intermediate_detuning=450 * TWO_PI, mod_bandwidth=40,
           controlled_beams=["BLUE"])
CH = [
    dict(kind="Rydberg", addr="Global", max_amp=15.0, max_abs_detuning=40.0,
         max_duration=10**6, mod_bandwidth=8, eom=EOM),
    dict(kind="Rydberg", addr="Local", max_amp=15.0, max_abs_detuning=40.0,
         max_duration=10**6, max_targets=2),
    dict(kind="Raman", addr="Local", max_amp=15.0, max_abs_detuning=40.0,
         max_duration=10**6, max_targets=2),
]
MW = dict(kind="Microwave", addr="Global", max_amp=15.0, max_abs_detuning=40.0,
          max_duration=10**6)
DMMS = [dict(bottom_detuning=-100.0, total_bottom_detuning=-1000.0, max_duration=10**6)]
DEVICES = {
    "phys": dict(type="physical", name="Phys", channels=CH, dmms=DMMS,
                 supports_slm_mask=True, dimensions=2, max_atom_num=10,
                 max_radial_distance=50, min_atom_distance=1.0),
    "virt_reuse": dict(type="virtual", name="VirtR", channels=CH + [MW], dmms=DMMS * 2,
                       supports_slm_mask=True, reusable_channels=True, dimensions=2),
    "virt_once": dict(type="virtual", name="VirtO", channels=CH + [MW], dmms=DMMS,
                      supports_slm_mask=True, reusable_channels=False, dimensions=2),
}
# the physical device with room for very little: calls get refused for length, not for mode
DEVICES["phys_short"] = dict(DEVICES["phys"], name="PhysS", max_sequence_duration=150)
REG_INT = dict(dim=2, ids=[0, 1, 2], coords=[[0.0, 0.0], [6.0, 0.0], [0.0, 6.0]])
REG = dict(dim=2, ids=["q0", "q1", "q2"], coords=[[0.0, 0.0], [6.0, 0.0], [0.0, 6.0]])
PULSE = dict(k="const_pulse", d=52, amp=2.0, det=-1.0, phase=0.0)

ALPHABET = ["declare", "declare_dup_name", "detmap", "slm", "magfield", "target",
            "add", "add_eom", "enable_eom", "modify_eom", "disable_eom", "delay",
            "align", "phase_shift", "add_dmm", "measure", "declare_var", "use_var", "use_var_refused",
            "get_duration", "current_phase_ref", "estimate", "sample", "draw"]


@st.composite
def call_seqs(draw, tier="quick"):
    dev = draw(st.sampled_from(sorted(DEVICES)))
    n = draw(st.integers(3, 12 if tier == "quick" else 20))
    calls = []
    for _ in range(n):
        k = draw(st.sampled_from(ALPHABET + ["declare", "declare", "add", "enable_eom"]))
        calls.append(dict(kind=k, a=draw(st.integers(0, 7)), b=draw(st.integers(0, 7))))
    out = dict(dev=dev, calls=calls)
    if draw(st.integers(0, 3)) == 0:
        out["reg"] = "int"  # integer qubit ids 0..2, single targets given as the bare id
    return out


class M6:
    """Typestate model. verdict(call) -> 'accept' | 'refuse' | 'unspec' | None
    (None: call not applicable in this state, skipped, e.g. no channel yet)."""

    def __init__(self, dev_key: str):
        self.dev_key = dev_key
        d = DEVICES[dev_key]
        self.reusable = d["type"] == "virtual" and d.get("reusable_channels", True)
        self.chans = d["channels"]
        self.ndmm = len(d["dmms"])
        self.names: dict = {}  # name -> dict(cid, local, eom_cfg, in_eom, target, dmm)
        self.used_cids: set = set()
        self.used_dmm: set = set()
        self.mode = None
        self.measured = False
        self.param = False
        self.slm = None  # dmm index reserved by an SLM mask
        self.vars: list = []
        self.n_decl = 0
        self.uncertain = False  # an unspecified call muddied the mode

    # -- concrete op construction ------------------------------------------
    def plain(self, local=None, eom_cfg=None, dmm=False):
        out = []
        for n, c in self.names.items():
            if c["dmm"] != dmm:
                continue
            if local is not None and c["local"] != local:
                continue
            if eom_cfg is not None and c["eom_cfg"] != eom_cfg:
                continue
            out.append(n)
        return out

    def make(self, call: dict):
        """Returns (op_record, verdict) or None if not applicable."""
        k, a, b = call["kind"], call["a"], call["b"]
        P = self.param
        if k in ("declare", "declare_dup_name"):
            cid = a % len(self.chans)
            cs = self.chans[cid]
            if k == "declare_dup_name":
                if not self.names:
                    return None
                name = sorted(self.names)[b % len(self.names)]
                if name.startswith("dmm_"):
                    return None
            else:
                name = f"c{self.n_decl}"
                self.n_decl += 1
            op = dict(op="declare", name=name, cid=cid)
            if cs["addr"] == "Local" and b % 2:
                op["initial_target"] = [b % 3]
            xy = cs["kind"] == "Microwave"
            if self.measured:
                v = "refuse"
            elif name in self.names:
                v = "refuse"
            elif (xy and self.mode == "ising") or (not xy and self.mode == "xy"):
                v = "refuse"
            elif not self.reusable and cid in self.used_cids:
                v = "refuse"
            else:
                v = "accept"
            if self.uncertain and v == "accept":
                v = "unspec"
            return op, v
        if k == "detmap":
            di = a % self.ndmm
            op = dict(op="detmap", weights=[1.0, 0.5, 0.0], dmm=di)
            if self.measured or self.mode == "xy":
                v = "refuse"
            elif not self.reusable and di in self.used_dmm:
                v = "refuse"
            elif self.slm is not None:
                v = "unspec"  # DMM reserved by/used for the SLM mask
            else:
                v = "accept"
            if self.uncertain and v == "accept":
                v = "unspec"
            return op, v
        if k == "slm":
            # after measurement it would add a DMM channel with a detuning pulse next to an
            # existing global pulse (Ising mode): a timeline-changing call
            v = "refuse" if (self.measured and not self.param and self.mode == "ising") else "unspec"
            return dict(op="slm", qubits=[a % 3], dmm=b % self.ndmm), v
        if k == "magfield":
            return dict(op="magfield", b=[1.0, 0.0, 30.0]), "unspec"
        if k == "declare_var":
            name = f"v{len(self.vars)}"
            return dict(op="declare_var", name=name), "accept"
        if k == "use_var_refused":
            # a call that uses a variable but must be refused for another reason (unknown
            # channel): the typestate must not change
            if not self.vars:
                return None
            return dict(op="delay", ch="ghost", d={"var": self.vars[a % len(self.vars)]}), "refuse"
        if k == "measure":
            basis = "XY" if self.mode == "xy" else "ground-rydberg"
            if self.mode is None:
                return dict(op="measure", basis=basis), "unspec"
            if self.measured:
                return dict(op="measure", basis=basis), "refuse"
            return dict(op="measure", basis=basis), ("unspec" if self.uncertain else "accept")
        if k in ("get_duration", "sample", "draw"):
            if k == "draw" and a % 4:
                return None  # keep the expensive call rare
            if k == "draw" and not P:
                return dict(op="ro", what=k), "unspec"  # may refuse an empty sequence
            return dict(op="ro", what=k), ("refuse" if P else "accept")
        chans = self.plain(dmm=False)
        if k == "add_dmm":
            dm = self.plain(dmm=True)
            if not dm:
                return None
            name = dm[a % len(dm)]
            op = dict(op="add_dmm", dmm=name, wf=dict(k="const", d=52, v=-1.0))
            if self.measured:
                return op, "refuse"
            return op, "unspec" if (self.slm is not None or P) else "accept"
        if not chans:
            return None
        name = chans[a % len(chans)]
        c = self.names[name]
        if k == "current_phase_ref":
            basis = {"Rydberg": "ground-rydberg", "Raman": "digital", "Microwave": "XY"}[c["kind"]]
            return dict(op="ro", what=k, q="q0", basis=basis), ("refuse" if P else "accept")
        if k == "estimate":
            op = dict(op="ro", what="estimate", ch=name)
            if P:
                return op, "refuse"
            if c["local"] and not c["target"]:
                return op, "unspec"
            return op, "unspec" if c["in_eom"] else "accept"
        if k == "target":
            loc = self.plain(local=True)
            if not loc:
                return None
            name = loc[a % len(loc)]
            c = self.names[name]
            op = dict(op="target", ch=name, qubits=[b % 3])
            if self.measured or c["in_eom"]:
                return op, "refuse"
            return op, "accept"
        if k == "add":
            op = dict(op="add", ch=name, pulse=PULSE)
            if b % 3 == 0:
                op["protocol"] = "no-delay"
            if self.measured or c["in_eom"]:
                return op, "refuse"
            if c["local"] and not c["target"]:
                return op, "unspec" if P else "refuse"
            return op, "accept"
        if k == "add_eom":
            op = dict(op="add_eom", ch=name, d=52, phase=0.0)
            if self.measured or not c["in_eom"]:
                return op, "refuse"
            if c["local"] and not c["target"]:
                return op, "unspec"
            return op, "accept"
        if k == "enable_eom":
            e = self.plain(eom_cfg=True)
            if not e:
                return None
            name = e[a % len(e)]
            c = self.names[name]
            op = dict(op="enable_eom", ch=name, amp_on=2.0, det_on=0.0)
            if self.measured or c["in_eom"]:
                return op, "refuse"
            return op, "accept"
        if k in ("modify_eom", "disable_eom"):
            e = self.plain(eom_cfg=True)
            if not e:
                return None
            name = e[a % len(e)]
            c = self.names[name]
            op = (dict(op="modify_eom", ch=name, amp_on=3.0, det_on=0.0)
                  if k == "modify_eom" else dict(op="disable_eom", ch=name))
            if self.measured or not c["in_eom"]:
                return op, "refuse"
            return op, "accept"
        if k == "delay":
            op = dict(op="delay", ch=name, d=52)
            if self.measured:
                return op, "refuse"
            if c["local"] and not c["target"]:
                return op, "unspec"
            return op, "accept"
        if k == "use_var":
            if not self.vars:
                return None
            op = dict(op="delay", ch=name, d={"var": self.vars[a % len(self.vars)]})
            if self.measured:
                return op, "refuse"
            return op, "unspec" if (c["local"] and not c["target"]) else "accept"
        if k == "align":
            if len(chans) < 2:
                return None
            n2 = chans[(a + 1 + b % (len(chans) - 1)) % len(chans)]
            if n2 == name:
                return None
            op = dict(op="align", chs=[name, n2])
            if self.measured:
                return op, "refuse"
            if any(self.names[x]["local"] and not self.names[x]["target"] for x in (name, n2)):
                return op, "unspec"
            return op, "accept"
        if k == "phase_shift":
            basis = {"Rydberg": "ground-rydberg", "Raman": "digital", "Microwave": "XY"}[c["kind"]]
            # all atoms: keeps phase references uniform, so that the phase-reference
            # rule (C07) never becomes a reason for refusing a later pulse
            op = dict(op="phase_shift", phi=1.0, qubits=[0, 1, 2], basis=basis)
            return op, "unspec" if self.measured else "accept"
        return None

    # -- model update from the observed outcome ------------------------------
    def update(self, op: dict, ok: bool):
        o = op["op"]
        if not ok:
            return
        if has_var(op):
            self.param = True
        if o == "declare":
            cs = self.chans[op["cid"]]
            self.names[op["name"]] = dict(
                cid=op["cid"], local=cs["addr"] == "Local", eom_cfg=bool(cs.get("eom")),
                in_eom=False, target=(cs["addr"] == "Global") or ("initial_target" in op),
                dmm=False, kind=cs["kind"])
            self.used_cids.add(op["cid"])
            self.mode = "xy" if cs["kind"] == "Microwave" else "ising"
        elif o == "detmap":
            cnt = sum(1 for n in self.names if n.split("_")[:2] == ["dmm", str(op["dmm"])])
            nm = f"dmm_{op['dmm']}" + (f"_{cnt}" if cnt else "")
            self.names[nm] = dict(cid=None, local=False, eom_cfg=False, in_eom=False,
                                  target=True, dmm=True, kind="DMM")
            self.used_dmm.add(op["dmm"])
            self.mode = "ising"
        elif o == "slm":
            self.slm = op["dmm"]
            self.uncertain = self.uncertain or self.mode != "xy"
        elif o == "magfield":
            if self.mode is None:
                self.mode = "xy"
        elif o == "target":
            self.names[op["ch"]]["target"] = True
        elif o == "enable_eom":
            self.names[op["ch"]]["in_eom"] = True
        elif o == "disable_eom":
            self.names[op["ch"]]["in_eom"] = False
        elif o == "measure":
            self.measured = True
        elif o == "declare_var":
            self.vars.append(op["name"])


def has_var(x) -> bool:
    return build.has_expr(x)


def run_ro(it: build.Interp, op: dict):
    seq = it.seq
    w = op["what"]
    try:
        if w == "get_duration":
            seq.get_duration()
        elif w == "current_phase_ref":
            seq.current_phase_ref(op["q"], op["basis"])
        elif w == "estimate":
            from pulser import Pulse

            seq.estimate_added_delay(Pulse.ConstantPulse(52, 2.0, 0.0, 0.0), op["ch"])
        elif w == "sample":
            from pulser.sampler import sample

            sample(seq)
        elif w == "draw":
            import matplotlib.pyplot as plt

            try:
                seq.draw(show=False)
            finally:
                plt.close("all")
    except Exception as e:  # noqa: BLE001
        return ("raised", e)
    return ("ok", None)


def check(case, ctx: Ctx):
    C = "C13.typestate"
    m = M6(case["dev"])
    int_ids = case.get("reg") == "int"
    prog = dict(device=DEVICES[case["dev"]], register=REG_INT if int_ids else REG, ops=[])
    if int_ids:
        ctx.label("integer_qubit_ids")
    it = build.Interp(prog)
    seq = it.seq
    n_ref = n_mode = 0
    ctx.label(case["dev"])
    for call in case["calls"]:
        made = m.make(call)
        if made is None:
            continue
        op, verdict = made
        if int_ids:
            if op["op"] == "declare" and op.get("initial_target") and len(op["initial_target"]) == 1:
                op["it_scalar"] = True
            if op.get("q") == "q0":
                op["q"] = 0
        mode_before = (m.mode, m.measured, m.param, tuple(c["in_eom"] for c in m.names.values()))
        if op["op"] == "ro":
            status, exc = run_ro(it, op)
        else:
            status, exc = it.apply(op)
        if status == "raised_arg":
            ctx.fail(C, f"argument_construction:{op['op']}", f"{op}: {exc}")
        ok = status == "ok"
        if (verdict == "accept" and not ok and DEVICES[case["dev"]].get("max_sequence_duration")
                and "maximum duration" in str(exc)):
            # refused because the sequence would get too long - not a matter of mode; what matters
            # here is that the mode afterwards is the mode before (the model is not advanced)
            ctx.label("refused_for_length")
            verdict = "unspec"
        if verdict == "accept" and not ok:
            ctx.fail(C, f"refused:{op['op']}" + (":ro:" + op["what"] if op["op"] == "ro" else ""),
                     f"{case['dev']}: model says {op} must be accepted in state "
                     f"{state_str(m)}; raised {type(exc).__name__}: {str(exc)[:200]}")
        if verdict == "refuse":
            n_ref += 1
            if ok and m.measured and has_var(op) and not m.param:
                # listed finding: the measurement is forgotten; the model then
                # follows the tree so that one root cause is reported once
                ctx.fail(C, "accepted_after_measure:call_with_variable",
                         f"{case['dev']}: {op} accepted although the sequence is measured",
                         cont=True)
                m.measured = False
            elif ok:
                ctx.fail(C, f"accepted:{op['op']}" + (":ro:" + op["what"] if op["op"] == "ro" else ""),
                         f"{case['dev']}: model says {op} must be refused in state {state_str(m)}")
        if verdict == "unspec":
            ctx.label("unspecified_call")
        m.update(op, ok)
        for n in seq.declared_channels:
            # DMM channels configured implicitly by the SLM mask
            if n.startswith("dmm_") and n not in m.names:
                m.names[n] = dict(cid=None, local=False, eom_cfg=False, in_eom=False,
                                  target=True, dmm=True, kind="DMM")
                m.used_dmm.add(int(n.split("_")[1]))
        mode_after = (m.mode, m.measured, m.param, tuple(c["in_eom"] for c in m.names.values()))
        n_mode += mode_before != mode_after
        # observers agree with the model
        if seq.is_parametrized() != m.param:
            ctx.fail(C, "is_parametrized", f"{seq.is_parametrized()} vs model {m.param} after {op}")
        if seq.is_measured() != m.measured:
            ctx.fail(C, "is_measured", f"{seq.is_measured()} vs model {m.measured} after {op}")
        if set(seq.declared_channels) != set(m.names):
            ctx.fail(C, "declared_channels",
                     f"{sorted(seq.declared_channels)} vs model {sorted(m.names)} after {op}")
        for n, c in m.names.items():
            if c["dmm"]:
                continue
            got = ctx.must(lambda: seq.is_in_eom_mode(n), C, "is_in_eom_mode")
            if got != c["in_eom"]:
                ctx.fail(C, "is_in_eom_mode", f"{n}: {got} vs model {c['in_eom']} after {op}")
        # available_channels is consistent with what declare accepts
        av = set(seq.available_channels)
        if not m.uncertain:
            for cid_i, cs in enumerate(m.chans):
                cid = list(it.device.channels)[cid_i]
                xy = cs["kind"] == "Microwave"
                exp = not ((xy and m.mode == "ising") or (not xy and m.mode == "xy")
                           or (not m.reusable and cid_i in m.used_cids))
                if (cid in av) != exp:
                    ctx.fail(C, "available_channels",
                             f"{cid}: listed={cid in av}, model={exp} in {state_str(m)}")
    ctx.nontrivial(n_ref >= 1 and n_mode >= 1)


def state_str(m: M6) -> str:
    return (f"mode={m.mode} measured={m.measured} param={m.param} slm={m.slm} "
            f"channels={ {n: ('eom' if c['in_eom'] else '') + ('' if c['target'] else ' no-target') for n, c in m.names.items()} }")


# ---- exhaustive small space on the physical device
SMALL = [
    dict(kind="declare", a=0, b=0), dict(kind="declare", a=1, b=1),
    dict(kind="declare", a=1, b=0), dict(kind="declare_dup_name", a=0, b=0),
    dict(kind="add", a=0, b=1), dict(kind="add", a=1, b=1),
    dict(kind="enable_eom", a=0, b=0), dict(kind="add_eom", a=0, b=0),
    dict(kind="disable_eom", a=0, b=0), dict(kind="target", a=0, b=1),
    dict(kind="measure", a=0, b=0), dict(kind="delay", a=1, b=0),
]


def enum_small(tier):
    depth = 5 if tier == "thorough" else 4
    for n in range(1, depth + 1):
        for combo in itertools.product(range(len(SMALL)), repeat=n):
            yield dict(dev="phys", calls=[SMALL[i] for i in combo])


# ---- second exhaustive space: parametrized sequences and DMM declarations (physical device)
SMALL_PARAM = [
    dict(kind="declare", a=0, b=0), dict(kind="declare_var", a=0, b=0), dict(kind="use_var", a=0, b=0),
    dict(kind="detmap", a=0, b=0), dict(kind="detmap", a=1, b=0), dict(kind="slm", a=0, b=0),
    dict(kind="add_dmm", a=0, b=0), dict(kind="add", a=0, b=1), dict(kind="measure", a=0, b=0),
    dict(kind="use_var_refused", a=0, b=0),
]


def enum_small_param(tier):
    depth = 6 if tier == "thorough" else 5
    for n in range(1, depth + 1):
        for combo in itertools.product(range(len(SMALL_PARAM)), repeat=n):
            # (sequences that never declare a variable are covered by the first space)
            if 1 not in combo:
                continue
            yield dict(dev="phys", calls=[SMALL_PARAM[i] for i in combo])


# ---- third exhaustive space: EOM mode x variables x measurement (physical device)
EOM_PREFIXES = [
    [dict(kind="declare", a=0, b=0), dict(kind="declare_var", a=0, b=0)],
    [dict(kind="declare", a=0, b=0), dict(kind="enable_eom", a=0, b=0), dict(kind="declare_var", a=0, b=0)],
]
SMALL_EOM = [
    dict(kind="use_var", a=0, b=0), dict(kind="enable_eom", a=0, b=0), dict(kind="add_eom", a=0, b=0),
    dict(kind="disable_eom", a=0, b=0), dict(kind="modify_eom", a=0, b=0), dict(kind="measure", a=0, b=0),
    dict(kind="delay", a=0, b=0),
]


def enum_small_eom(tier):
    depth = 5 if tier == "thorough" else 4
    for pre in EOM_PREFIXES:
        for n in range(1, depth + 1):
            for combo in itertools.product(range(len(SMALL_EOM)), repeat=n):
                yield dict(dev="phys", calls=pre + [SMALL_EOM[i] for i in combo])


# ---- fourth exhaustive space: a device with room for 150 ns only (refusals for length)
SMALL_SHORT = [
    dict(kind="enable_eom", a=0, b=0), dict(kind="add_eom", a=0, b=0), dict(kind="disable_eom", a=0, b=0),
    dict(kind="modify_eom", a=0, b=0), dict(kind="add", a=0, b=1), dict(kind="delay", a=0, b=0),
    dict(kind="measure", a=0, b=0),
]


def enum_small_short(tier):
    depth = 5 if tier == "thorough" else 4
    for n in range(1, depth + 1):
        for combo in itertools.product(range(len(SMALL_SHORT)), repeat=n):
            yield dict(dev="phys_short", calls=[dict(kind="declare", a=0, b=0)] + [SMALL_SHORT[i] for i in combo])


CLAUSES = [
    Clause("typestate", check, gen=lambda t: call_seqs(t),
           budget={"quick": (16, 1500), "thorough": (16, 40000)},
           doc="random call sequences vs the M6 automaton"),
    Clause("typestate_small_exhaustive", check, enum=enum_small,
           budget={"quick": (16, 0), "thorough": (16, 0)}, exhaustive=True,
           doc="all sequences of <=4 (quick) / <=5 (thorough) calls from a 12-call alphabet"),
    Clause("typestate_param_exhaustive", check, enum=enum_small_param,
           budget={"quick": (16, 0), "thorough": (16, 0)}, exhaustive=True,
           doc="all sequences of <=5 (quick) / <=6 (thorough) calls from a 10-call alphabet with variables and DMMs"),
    Clause("typestate_eom_param_exhaustive", check, enum=enum_small_eom,
           budget={"quick": (8, 0), "thorough": (16, 0)}, exhaustive=True,
           doc="an EOM channel and a variable declared, then all sequences of <=4 (quick) / <=5 (thorough) calls "
               "from {use variable, enable/modify/disable EOM, EOM pulse, measure, delay}"),
    Clause("typestate_short_device_exhaustive", check, enum=enum_small_short,
           budget={"quick": (8, 0), "thorough": (16, 0)}, exhaustive=True,
           doc="device limited to 150 ns: one channel declared, then all sequences of <=4 (quick) / <=5 (thorough) "
               "calls from {enable/modify/disable EOM, EOM pulse, pulse, delay, measure}; a call refused for "
               "length leaves the mode as it was"),
]
