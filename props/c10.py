"""C10 - phase-jump time and retarget intervals are honoured."""
from __future__ import annotations

from pv import gen, history
from pv.engine import Clause, Ctx

RULE = (
    "Hypothesis-generated programs on channels with every combination of "
    "phase-jump time (derived/custom), bandwidth, clock, min duration, minimum "
    "retarget interval and fixed retarget time; consecutive pulses of equal and "
    "different phase under all protocols; repeated retargets including to the "
    "same atoms. Non-trivial: two consecutive different-phase pulses whose "
    "natural gap is shorter than the required separation, or a retarget closer "
    "than the interval; distinct = distinct canonical JSON."
)
ASSUMPTIONS = [
    "Pulse.fall_time is taken as given (judged by C14)",
    "phases closer than 1e-9 rad mod 2pi are not treated as different",
]


def profile(tier):
    return {
        "fault_pct": 3, "min_ops": 6, "max_ops": 35 if tier == "quick" else 60,
        "min_channels": 1, "max_channels": 3, "measure": False, "slm": False, "dmm": False,
        "weights": {"declare": 6, "declare_more": 1, "add": 14, "align": 1,
                    "delay": 2, "phase_shift": 1, "target": 7, "eom": 4},
        "device": gen.device_specs(
            n_channels=(1, 3), allow_builtin=True, allow_dmm=False,
            chan_kw={"bandwidth": [None, 4, 8, 8, 20, 40, 150]}),
    }


def profile_retarget(tier):
    """Local modulated channels with a custom phase-jump time below twice the rise time:
    pulse, short delays, retarget - the retarget must still wait for the ramp-down."""
    def force(d):
        import copy

        d = copy.deepcopy(d)
        for i, c in enumerate(d["channels"]):
            c["custom_phase_jump_time"] = [0, 20, 40, 0][i % 4]
        return d

    p = profile(tier)
    return dict(p, fault_pct=0, min_ops=6, max_ops=24,
                weights={"declare": 6, "declare_more": 1, "add": 9, "align": 0, "delay": 9,
                         "phase_shift": 1, "target": 9, "eom": 0},
                device=gen.device_specs(n_channels=(1, 2), allow_builtin=False, allow_dmm=False,
                                        chan_kw={"addr": "Local", "eom": False,
                                                 "bandwidth": [2, 4, 8]}).map(force),
                register=gen.register_specs(n=(2, 4)))


def check(case, ctx: Ctx):
    w = history.Walker(case, ctx, {"C10"}).run()
    st_ = w.stats
    ctx.nontrivial(st_["nt_c10"] >= 1)
    if st_["pj"]:
        ctx.label("phase_jump_needing_delay")
    if st_["retarget"]:
        ctx.label("retarget")
    if w.aborted:
        ctx.label("aborted_partial_effect(C09)")


CLAUSES = [
    Clause("timing", check, gen=lambda t: gen.programs(profile(t)),
           budget={"quick": (16, 200), "thorough": (16, 3000)},
           doc="C10.phase_jump and C10.retarget per step"),
    Clause("retarget_after_delays", check, gen=lambda t: gen.programs(profile_retarget(t)),
           budget={"quick": (8, 120), "thorough": (16, 3000)},
           doc="local modulated channels with short custom phase-jump times: pulse, delays, retarget"),
]
