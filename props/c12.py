"""C12 - a device accepts exactly the registers and layouts that fit its geometry."""
from __future__ import annotations

import io
import contextlib
import math

import numpy as np
from hypothesis import strategies as st

from pv import build, gen
from pv.engine import Clause, Ctx

RULE = (
    "Hypothesis-generated device parameters (max_atom_num, min_atom_distance, "
    "max_radial_distance, dimensions, layout trap limits, max_layout_filling; "
    "each optional where the class allows) x registers built to sit at / just "
    "inside / just outside each limit (pair distance min+-{0,5e-7,2e-6,1e-3}, "
    "radius max+-{0,1e-9,1e-3}, atom count max and max+-1, 3D on 2D device, "
    "filling exactly at max_layout_filling and +-1 atom, duplicated "
    "coordinates). Oracle: own predicate from the statement with an "
    "unspecified band equal to the coordinate precision. Closure: "
    "max_connectivity / with_automatic_layout return only registers the device "
    "accepts. Construction: every parameter combination satisfying the "
    "documented constraints constructs and prints its specs. Non-trivial: a "
    "quantity within 1e-3 relative of its limit; distinct = distinct canonical JSON."
)
ASSUMPTIONS = [
    "distances/radii evaluated with numpy float64 norms",
    "unspecified band: pair distance in [min-2e-6, min) or in [5e-7, 2e-6) when min = 0; "
    "radius within 1e-12 relative of the limit",
]

PAIR_D = [0.0, 5e-7, -5e-7, 2e-6, -2e-6, 1e-3, -1e-3, 0.5, "dup"]
RAD_D = [0.0, 1e-9, -1e-9, 1e-3, -1e-3, -1.0, 1.0]


@st.composite
def dev_params(draw, physical=None):
    phys = draw(st.booleans()) if physical is None else physical
    p = dict(
        physical=phys,
        dimensions=draw(st.sampled_from([2, 3])),
        min_atom_distance=draw(st.sampled_from([0.0, 1.0, 4.0, 5.0])),
        max_radial_distance=draw(st.sampled_from([10, 35, 50] + ([] if phys else [None]))),
        max_atom_num=draw(st.sampled_from([1, 3, 6, 100] + ([] if phys else [None]))),
        max_layout_filling=draw(st.sampled_from([0.5, 0.29, 1.0, 0.4, 0.75])),
        min_layout_traps=draw(st.sampled_from([1, 1, 3])),
        max_layout_traps=draw(st.sampled_from([None, None, 6, 10, 200])),
    )
    if p["max_layout_traps"] is not None and p["max_atom_num"] is not None:
        cap = int(p["max_layout_filling"] * p["max_layout_traps"])
        if cap < p["max_atom_num"]:
            p["max_atom_num"] = max(cap, 1)
            if cap < 1:
                p["max_layout_traps"] = None
    return p


def mk_dev(p, channels=None):
    spec = dict(
        type="physical" if p["physical"] else "virtual", name="G",
        channels=channels or [dict(kind="Rydberg", addr="Global", max_amp=10.0,
                                   max_abs_detuning=50.0, max_duration=10**6)],
        dmms=[], supports_slm_mask=False, dimensions=p["dimensions"],
        min_atom_distance=p["min_atom_distance"], max_atom_num=p["max_atom_num"],
        max_radial_distance=p["max_radial_distance"],
        max_layout_filling=p["max_layout_filling"], min_layout_traps=p["min_layout_traps"],
    )
    if p["max_layout_traps"] is not None:
        spec["max_layout_traps"] = p["max_layout_traps"]
    return build.mk_device(spec)


@st.composite
def geom_cases(draw):
    p = draw(dev_params())
    dim = draw(st.sampled_from([2, 2, 3]))
    nmax = p["max_atom_num"] or 6
    n = draw(st.sampled_from(sorted({1, 2, 3, max(1, nmax - 1), nmax, nmax + 1} & set(range(1, 9)))))
    R = p["max_radial_distance"] or 30
    dmin = p["min_atom_distance"]
    # well separated base points inside 0.7 R
    pts = []
    tries = 0
    while len(pts) < n and tries < 300:
        tries += 1
        v = [draw(gen.fl(-0.7 * R, 0.7 * R)) for _ in range(dim)]
        if np.linalg.norm(v) > 0.7 * R:
            continue
        if all(np.linalg.norm(np.array(v) - np.array(q)) > dmin + 1.0 for q in pts):
            pts.append(v)
    n = len(pts)
    mods = []
    if n >= 2 and draw(st.booleans()):
        i = draw(st.integers(1, n - 1))
        j = draw(st.integers(0, i - 1))
        delta = draw(st.sampled_from(PAIR_D))
        ang = draw(gen.fl(0, 6.28))
        mods.append(dict(kind="pair", i=i, j=j, delta=delta, ang=ang))
    if p["max_radial_distance"] is not None and draw(st.booleans()):
        mods.append(dict(kind="radius", i=draw(st.integers(0, n - 1)), delta=draw(st.sampled_from(RAD_D))))
    return dict(dev=p, dim=dim, pts=pts, mods=mods,
                ids=list(draw(st.permutations([f"q{k}" for k in range(n)]))))


def realise(case):
    p = case["dev"]
    pts = [np.array(v, dtype=float) for v in case["pts"]]
    for m in case["mods"]:
        if m["kind"] == "pair":
            if m["delta"] == "dup":
                pts[m["i"]] = pts[m["j"]].copy()
            else:
                u = np.zeros(case["dim"])
                u[0], u[1] = math.cos(m["ang"]), math.sin(m["ang"])
                pts[m["i"]] = pts[m["j"]] + u * (p["min_atom_distance"] + m["delta"])
        else:
            v = pts[m["i"]]
            nv = np.linalg.norm(v)
            if nv == 0:
                v = np.zeros(case["dim"])
                v[0] = 1.0
                nv = 1.0
            pts[m["i"]] = v / nv * (p["max_radial_distance"] + m["delta"])
    return pts


def judge(p, pts, ids, reg_dim):
    """Returns dict of must-reject / band sets per rule."""
    n = len(pts)
    out = dict(count=False, dims=False, pairs_bad=set(), pairs_band=set(),
               rad_bad=set(), rad_band=set())
    if p["max_atom_num"] is not None and n > p["max_atom_num"]:
        out["count"] = True
    if reg_dim > p["dimensions"]:
        out["dims"] = True
    dmin = p["min_atom_distance"]
    for i in range(n):
        for j in range(i + 1, n):
            d = float(np.linalg.norm(pts[i] - pts[j]))
            pair = frozenset((ids[i], ids[j]))
            if d < dmin - 2e-6 or d < 5e-7:
                out["pairs_bad"].add(pair)
            elif d < dmin or d < 2e-6:
                out["pairs_band"].add(pair)
    R = p["max_radial_distance"]
    if R is not None:
        for i in range(n):
            r = float(np.linalg.norm(pts[i]))
            if r > R * (1 + 1e-12):
                out["rad_bad"].add(ids[i])
            elif r > R * (1 - 1e-12):
                out["rad_band"].add(ids[i])
    return out


def near(p, pts) -> bool:
    dmin, R = p["min_atom_distance"], p["max_radial_distance"]
    for i in range(len(pts)):
        if R and abs(np.linalg.norm(pts[i]) - R) <= 1e-3 * R:
            return True
        for j in range(i):
            d = np.linalg.norm(pts[i] - pts[j])
            if abs(d - dmin) <= 1e-3 * max(dmin, 1e-3):
                return True
    return bool(p["max_atom_num"] and abs(len(pts) - p["max_atom_num"]) <= 1)


def check_geom(case, ctx: Ctx):
    from pulser import Register, Register3D, Sequence
    from pulser.exceptions.sequence import (AtomsNumberError, DimensionPositionsTooHighError,
                                             DistanceError, RadiusError)

    C = "C12.register"
    p = case["dev"]
    dev = ctx.must(lambda: mk_dev(p), C, "device construction")
    pts = realise(case)
    ids = case["ids"]
    cls = Register3D if case["dim"] == 3 else Register
    reg = ctx.must(lambda: cls({q: v for q, v in zip(ids, pts)}), C, "register construction")
    # judge on the coordinates the register actually holds
    held = [np.asarray(v.as_array(), dtype=float) for v in reg.qubits.values()]
    J = judge(p, held, ids, case["dim"])
    ctx.nontrivial(near(p, held))
    ctx.label(f"dim={case['dim']}on{p['dimensions']}", "physical" if p["physical"] else "virtual")
    must_reject = J["count"] or J["dims"] or J["pairs_bad"] or J["rad_bad"]
    band = bool(J["pairs_band"] or J["rad_band"])
    try:
        dev.validate_register(reg)
        exc = None
    except Exception as e:  # noqa: BLE001
        exc = e
    if must_reject and exc is None:
        what = ("count" if J["count"] else "dims" if J["dims"] else
                "distance" if J["pairs_bad"] else "radius")
        ctx.fail(C, f"accepted_violating:{what}",
                 f"{p}: register {dict(zip(ids, [v.tolist() for v in held]))} accepted")
    if not must_reject and not band and exc is not None:
        ctx.fail(C, f"rejected_fitting:{type(exc).__name__}", f"{p}: {exc}")
    if exc is not None:
        ctx.label("rejected:" + type(exc).__name__)
        if isinstance(exc, DistanceError):
            got = {frozenset(x) for x in exc.invalid}
            if not (J["pairs_bad"] <= got <= (J["pairs_bad"] | J["pairs_band"])):
                ctx.fail(C, "culprits:distance",
                         f"reported {sorted(map(sorted, got))}, violating {sorted(map(sorted, J['pairs_bad']))}"
                         f" (+band {sorted(map(sorted, J['pairs_band']))})")
        elif isinstance(exc, RadiusError):
            got = set(exc.invalid)
            if not (J["rad_bad"] <= got <= (J["rad_bad"] | J["rad_band"])):
                ctx.fail(C, "culprits:radius", f"reported {sorted(got)}, violating {sorted(J['rad_bad'])}")
        elif isinstance(exc, AtomsNumberError):
            if not J["count"]:
                ctx.fail(C, "wrong_reason:count", str(exc))
        elif isinstance(exc, DimensionPositionsTooHighError):
            if not J["dims"]:
                ctx.fail(C, "wrong_reason:dims", str(exc))
        else:
            ctx.fail(C, f"unexpected_exception:{type(exc).__name__}", str(exc)[:200])
    # Sequence creation agrees with explicit validation
    try:
        Sequence(reg, dev)
        sexc = None
    except Exception as e:  # noqa: BLE001
        sexc = e
    if (sexc is None) != (exc is None):
        ctx.fail(C, "sequence_vs_validate", f"validate: {exc!r}; Sequence(): {sexc!r}")


# ------------------------------------------------------------------ layouts
@st.composite
def layout_cases(draw):
    p = draw(dev_params())
    nt = draw(st.sampled_from([1, 2, 3, 5, 6, 7, 10, 11, 20, 100]))
    if p["max_layout_traps"]:
        nt = draw(st.sampled_from([nt, p["max_layout_traps"], p["max_layout_traps"] + 1]))
    nt = min(nt, 120)
    dim = draw(st.sampled_from([2, 2, 3]))
    f = p["max_layout_filling"]
    nq_exact = nt * f
    cands = {1, max(1, math.floor(nq_exact + 1e-9)), math.floor(nq_exact + 1e-9) + 1,
             max(1, math.floor(nq_exact + 1e-9) - 1)}
    nq = draw(st.sampled_from(sorted(c for c in cands if 1 <= c <= nt)))
    spacing = draw(st.sampled_from([5.0, 6.0, 1.5]))
    mappable = draw(st.booleans())
    return dict(dev=p, nt=nt, dim=dim, nq=nq, spacing=spacing, mappable=mappable)


def check_layout(case, ctx: Ctx):
    from pulser import Sequence
    from pulser.register.register_layout import RegisterLayout

    C = "C12.layout"
    p = case["dev"]
    dev = ctx.must(lambda: mk_dev(p), C, "device construction")
    nt, dim, sp = case["nt"], case["dim"], case["spacing"]
    side = int(math.ceil(nt ** (1 / dim)))
    grid = []
    for idx in range(side ** dim):
        c = []
        k = idx
        for _ in range(dim):
            c.append((k % side - (side - 1) / 2) * sp)
            k //= side
        grid.append(c)
    grid.sort(key=lambda v: sum(x * x for x in v))
    traps = grid[:nt]
    lay = ctx.must(lambda: RegisterLayout(traps), C, "RegisterLayout()")
    J = judge(dict(p, max_atom_num=None), [np.array(t) for t in traps],
              [str(i) for i in range(nt)], dim)
    lay_bad = (J["dims"] or J["pairs_bad"] or J["rad_bad"] or nt < p["min_layout_traps"]
               or (p["max_layout_traps"] is not None and nt > p["max_layout_traps"]))
    lay_band = bool(J["pairs_band"] or J["rad_band"])
    try:
        dev.validate_layout(lay)
        lexc = None
    except Exception as e:  # noqa: BLE001
        lexc = e
    ctx.label("layout_bad" if lay_bad else "layout_ok")
    if lay_bad and lexc is None:
        ctx.fail(C, "accepted_bad_layout", f"{p}: layout of {nt} traps (spacing {sp}, dim {dim})")
    if not lay_bad and not lay_band and lexc is not None:
        ctx.fail(C, f"rejected_good_layout:{type(lexc).__name__}", f"{p}: {lexc}")
    if lay_bad or lay_band:
        return
    # filling
    nq = case["nq"]
    f = p["max_layout_filling"]
    ratio = nq / nt
    ctx.nontrivial(abs(ratio - f) <= 1.0 / nt + 1e-12)
    fill_bad = ratio > f * (1 + 1e-9)
    fill_ok = ratio <= f * (1 + 1e-12)
    count_bad = p["max_atom_num"] is not None and nq > p["max_atom_num"]
    ids = list(range(nq))
    if case["mappable"]:
        obj = ctx.must(lambda: lay.make_mappable_register(nq), C, "make_mappable_register")
        count_bad = False  # a mappable register has no atoms yet
    else:
        obj = ctx.must(lambda: lay.define_register(*ids), C, "define_register")
    try:
        Sequence(obj, dev)
        exc = None
    except Exception as e:  # noqa: BLE001
        exc = e
    if (fill_bad or count_bad) and exc is None:
        ctx.fail(C, "accepted_overfilled", f"{p}: {nq} atoms on {nt} traps accepted")
    if fill_ok and not count_bad and exc is not None:
        ctx.fail(C, f"rejected_within_filling:{type(exc).__name__}",
                 f"{nq} atoms on {nt} traps (ratio {ratio} <= max_layout_filling {f}) rejected: {exc}",
                 cont=True)


# ------------------------------------------------------------------ closure
@st.composite
def closure_cases(draw):
    p = draw(dev_params(physical=True))
    p["dimensions"] = 2
    p["max_atom_num"] = draw(st.sampled_from([p["max_atom_num"], 100, 100]))
    if p["max_layout_traps"] is not None:
        p["max_layout_traps"] = None
    n = draw(st.integers(1, 40) | st.sampled_from([7, 19, 37, 40, 61]))
    spacing = draw(st.sampled_from([None, None, "min", 1.5, 2.0, 7.5]))
    return dict(dev=p, n=n, spacing=spacing,
                opt_fill=draw(st.sampled_from([None, None, 0.2])))


def check_closure(case, ctx: Ctx):
    from pulser import Register

    C = "C12.closure"
    p = case["dev"]
    dev = ctx.must(lambda: mk_dev(p), C, "device construction")
    sp = case["spacing"]
    if sp == "min":
        sp = p["min_atom_distance"]
    ctx.nontrivial(case["n"] >= 2)
    try:
        reg = Register.max_connectivity(case["n"], dev, spacing=sp, prefix="q")
    except Exception:  # noqa: BLE001 - refusing is allowed
        reg = None
        ctx.label("max_connectivity_refused")
    if reg is not None:
        try:
            dev.validate_register(reg)
        except Exception as e:  # noqa: BLE001
            ctx.fail(C, f"max_connectivity_rejected:{type(e).__name__}",
                     f"max_connectivity({case['n']}, dev, spacing={sp}) returned a register that "
                     f"{p} rejects: {str(e)[:150]}", cont=True)
            reg = None
    if reg is None:
        # a small hand-made register for the automatic layout
        k = min(case["n"], p["max_atom_num"] or 5, 5)
        d = max(p["min_atom_distance"], 1.0) + 0.5
        reg = Register({f"q{i}": ((i % 3 - 1) * d, (i // 3) * d) for i in range(k)})
        try:
            dev.validate_register(reg)
        except Exception:  # noqa: BLE001
            return
    try:
        reg2 = reg.with_automatic_layout(dev)
    except Exception:  # noqa: BLE001 - documented to raise when it cannot
        ctx.label("automatic_layout_refused")
        return
    if reg2.layout is None or list(reg2.qubit_ids) != list(reg.qubit_ids):
        ctx.fail(C, "automatic_layout:identity", "")
    try:
        dev.validate_register(reg2)
    except Exception as e:  # noqa: BLE001
        ctx.fail(C, f"automatic_layout_rejected:{type(e).__name__}",
                 f"{p}: {len(reg.qubit_ids)} atoms: {str(e)[:200]}", cont=True)


# ------------------------------------------------------------------ construction
@st.composite
def construct_cases(draw):
    p = draw(dev_params())
    n = draw(st.integers(1, 3))
    chans = [draw(gen.channel_specs(physical=p["physical"])) for _ in range(n)]
    for c in chans:
        # every None/defined combination of the optional limits (virtual only)
        if not p["physical"]:
            c["max_amp"] = draw(st.sampled_from([None, 10.0]))
            c["max_abs_detuning"] = draw(st.sampled_from([None, 20.0]))
    nd = draw(st.integers(0, 2))
    dmms = [draw(gen.dmm_specs(physical=p["physical"])) for _ in range(nd)]
    return dict(dev=p, channels=chans, dmms=dmms,
                ids=draw(st.sampled_from([None, "custom"])))


def check_construct(case, ctx: Ctx):
    C = "C12.construct"
    p = case["dev"]
    spec = dict(
        type="physical" if p["physical"] else "virtual", name="G", channels=case["channels"],
        dmms=case["dmms"], supports_slm_mask=bool(case["dmms"]), dimensions=p["dimensions"],
        min_atom_distance=p["min_atom_distance"], max_atom_num=p["max_atom_num"],
        max_radial_distance=p["max_radial_distance"], max_layout_filling=p["max_layout_filling"],
        min_layout_traps=p["min_layout_traps"])
    if p["max_layout_traps"] is not None:
        spec["max_layout_traps"] = p["max_layout_traps"]
    if case["ids"]:
        spec["channel_ids"] = [f"c{i}" for i in range(len(case["channels"]))]
    undefined = [k for c in case["channels"] for k in ("max_amp", "max_abs_detuning") if c.get(k) is None]
    ctx.nontrivial(len(undefined) >= 1 or bool(case["dmms"]))
    ctx.label("physical" if p["physical"] else "virtual")
    if any(c.get("max_amp") is None and c.get("max_abs_detuning") is not None for c in case["channels"]):
        ctx.label("det_limit_without_amp_limit")
    dev = ctx.must(lambda: build.mk_device(spec), C, "Device/VirtualDevice construction")
    buf = io.StringIO()
    with contextlib.redirect_stdout(buf):
        ctx.must(lambda: dev.print_specs(), C, "print_specs")
    txt = ctx.must(lambda: dev.specs, C, "specs")
    if not txt or not buf.getvalue():
        ctx.fail(C, "empty_specs", "")
    doc = dev.__doc__ or ""
    for cid in dev.channels:
        if cid not in txt or cid not in doc:
            ctx.fail(C, "specs_missing_channel", cid)
    ctx.must(lambda: repr(dev), C, "repr")
    if not p["physical"]:
        return
    ctx.must(lambda: dev.to_virtual(), C, "to_virtual")


CLAUSES = [
    Clause("register", check_geom, gen=lambda t: geom_cases(),
           budget={"quick": (8, 500), "thorough": (16, 15000)}),
    Clause("layout", check_layout, gen=lambda t: layout_cases(),
           budget={"quick": (4, 300), "thorough": (16, 10000)}),
    Clause("closure", check_closure, gen=lambda t: closure_cases(),
           budget={"quick": (8, 100), "thorough": (16, 2500)}),
    Clause("construct", check_construct, gen=lambda t: construct_cases(),
           budget={"quick": (4, 200), "thorough": (16, 8000)}),
]
