"""C01 - every scheduled pulse respects the limits of its channel and device."""
from __future__ import annotations

import math

import numpy as np
from hypothesis import strategies as st

from pv import build, gen, history
from pv.engine import Clause, Ctx

gen.DEGENERATE_WF = True  # this process is about finite samples too
TWO_PI = 2 * math.pi
RULE = (
    "(sound) Hypothesis-generated histories on generated devices (every limit "
    "independently present/absent; physical and virtual) whose pulse parameters "
    "are drawn boundary-biased around each defined limit (at, nextafter, +-4e-7, "
    "+-6e-7, +-1e-6, +-2e-6, x(1+-1e-3)); every new Pulse slot on any channel "
    "(including EOM buffers and the automatic SLM-mask DMM pulse) is checked "
    "against the limits after each successful call. (complete) generated "
    "(channel, pulse) pairs constructed inside or exactly at every defined "
    "limit must be accepted, unchanged if the duration is a clock multiple, "
    "else lengthened to the next multiple with the same defining parameters. "
    "(durations) Channel.validate_duration enumerated exhaustively over a box "
    "of (duration, clock, min, max). Non-trivial: a history/pair with at "
    "least one parameter drawn at or within 1e-3 relative of a defined limit, "
    "or a sequence within 600 ns of max_sequence_duration; distinct = distinct "
    "canonical JSON (exhaustive box: distinct by construction)."
)
ASSUMPTIONS = [
    "Waveform.samples is the definition of what is scheduled",
    "5e-7 slack on detuning comparisons (the documented 1e-6 rounding)",
]


def profile(tier):
    return {
        "fault_pct": 8, "min_ops": 4, "max_ops": 25 if tier == "quick" else 40,
        "min_channels": 1, "measure": False,
        "weights": {"declare": 6, "declare_more": 2, "add": 14, "align": 1,
                    "delay": 1, "phase_shift": 1, "target": 2, "eom": 4,
                    "add_dmm": 6, "detmap": 2, "slm": 2},
        "device": gen.device_specs(
            n_channels=(1, 3), allow_builtin=True,
            max_seq=[None, None, 600, 2000, 6000],
            chan_kw={"bandwidth": [None, None, 8, 40]}),
    }


def near_limit(prog) -> bool:
    lims = []
    dev = prog["device"]
    if dev["type"] == "builtin":
        chans = gen.BUILTIN_SPECS[dev["name"]]["channels"]
        dmms = gen.BUILTIN_SPECS[dev["name"]]["dmms"]
    else:
        chans, dmms = dev["channels"], dev.get("dmms", [])
    for c in chans:
        lims += [c.get("max_amp"), c.get("max_abs_detuning")]
    for d in dmms:
        lims += [d.get("bottom_detuning"), d.get("total_bottom_detuning")]
    lims = [abs(x) for x in lims if x]
    vals = []

    def walk(x):
        if isinstance(x, dict):
            for v in x.values():
                walk(v)
        elif isinstance(x, list):
            for v in x:
                walk(v)
        elif isinstance(x, float):
            vals.append(abs(x))

    walk(prog["ops"])
    return any(abs(v - L) <= 1e-3 * L for v in vals for L in lims)


def check_sound(case, ctx: Ctx):
    w = history.Walker(case, ctx, {"C01"}).run()
    st_ = w.stats
    nl = near_limit(case)
    ctx.nontrivial((nl or st_.get("near_max_seq")) and st_.get("c01_pulses", 0) >= 1)
    if nl:
        ctx.label("param_near_limit")
    if st_.get("near_max_seq"):
        ctx.label("near_max_sequence_duration")
    if any(n.startswith("dmm_") for n in w.seq._schedule):
        ctx.label("dmm")
    if any(cs.eom_blocks for cs in w.seq._schedule.values()):
        ctx.label("eom")


# ------------------------------------------------------------------ completeness
@st.composite
def inside_cases(draw):
    virt = draw(st.booleans())
    cs = draw(gen.channel_specs(physical=not virt, eom=False,
                                bandwidth=[None, None, 8, 40]))
    cs.pop("min_avg_amp", None) if draw(st.booleans()) else None
    clk = cs["clock_period"]
    lo = cs["min_duration"]
    hi = cs.get("max_duration", 10**8)
    top = min(hi if hi is not None else 3000, 3000)
    # duration inside [min, max]; when not a clock multiple, the lengthened
    # duration must still fit (the statement: "only lengthened")
    cands = {lo, lo + 1, lo + clk, top, max(lo, top - 1), max(lo, top // 2)} | {
        x for x in (16, 17, 52, 100, 203) if lo <= x <= top}
    d = draw(st.sampled_from(sorted(c for c in cands if lo <= c <= max(top, lo))))
    multiple = d % clk == 0
    amax = cs.get("max_amp")
    dmax = cs.get("max_abs_detuning")
    big = draw(st.sampled_from([1.0, 10.0, 1e3]))
    a_hi = amax if amax is not None else 20.0 * big
    d_hi = dmax if dmax is not None else 50.0 * big
    at_limit = draw(st.booleans())
    aval = a_hi if at_limit else draw(gen.fl(0, a_hi))
    dval = (d_hi if at_limit else draw(gen.fl(0, d_hi))) * draw(st.sampled_from([1, -1]))
    mavg = cs.get("min_avg_amp", 0)
    kind = draw(st.sampled_from(["const_pulse", "const_pulse", "shaped"] + (["around_min_avg"] if mavg else [])))
    if kind == "around_min_avg":
        # amplitudes with zeros in them whose average sits just below / at / just above the minimum
        if d % clk and -(-d // clk) * clk <= max(top, lo):
            d = -(-d // clk) * clk  # on the clock grid: nothing to lengthen, only the limit matters
        f = draw(st.sampled_from([0.98, 0.999, 1.0, 1.02]))
        shape = draw(st.sampled_from(["ramp_up", "ramp_down", "on_off"]))
        top_ = 2 * mavg * f
        if amax is not None and top_ > amax:
            top_ = amax
        if shape == "on_off" and d >= 2:
            h = d // 2
            amp = dict(k="composite", parts=[dict(k="const", d=h, v=top_ * d / (2 * h)), dict(k="const", d=d - h, v=0.0)])
        else:
            amp = dict(k="ramp", d=d, a=0.0 if shape != "ramp_down" else top_, b=top_ if shape != "ramp_down" else 0.0)
        pulse = dict(k="pulse", amp=amp, det=dict(k="const", d=d, v=0.0), phase=0.0)
    elif kind == "const_pulse":
        if mavg and 0 < aval < mavg:
            aval = mavg
        pulse = dict(k="const_pulse", d=d, amp=aval, det=dval, phase=draw(st.sampled_from(gen.PHASES)))
    else:
        amp = draw(gen.waveform_specs(d, 0.0, aval, True, changeable=not multiple))
        det = draw(gen.waveform_specs(d, -abs(dval), abs(dval), changeable=not multiple))
        pulse = dict(k="pulse", amp=amp, det=det, phase=draw(st.sampled_from(gen.PHASES)))
    if draw(st.booleans()):
        pulse["pps"] = draw(st.sampled_from([0.0, 1.0, math.pi]))
    return dict(channel=cs, pulse=pulse, virtual=virt, at_limit=at_limit,
                protocol=draw(st.sampled_from(gen.PROTOCOLS)))


def wf_params(wf):
    from pulser import waveforms as W

    if isinstance(wf, W.ConstantWaveform):
        return ("const", float(wf._value))
    if isinstance(wf, W.RampWaveform):
        return ("ramp", float(wf._start), float(wf._stop))
    if isinstance(wf, W.BlackmanWaveform):
        return ("blackman", float(wf._area))
    if isinstance(wf, W.KaiserWaveform):
        return ("kaiser", float(wf._area), float(wf._beta))
    if isinstance(wf, W.InterpolatedWaveform):
        return ("interp", tuple(map(float, wf._values)), tuple(map(float, wf._times)))
    return (type(wf).__name__,)


def check_complete(case, ctx: Ctx):
    from pulser import Sequence

    C = "C01.complete"
    cs = case["channel"]
    dev = dict(type="virtual" if case["virtual"] else "physical", name="D",
               channels=[cs], dmms=[], supports_slm_mask=False, dimensions=2,
               max_atom_num=10, max_radial_distance=50, min_atom_distance=1.0)
    if not case["virtual"]:
        dev.pop("reusable_channels", None)
    reg = dict(dim=2, ids=["q0", "q1"], coords=[[0.0, 0.0], [6.0, 0.0]])
    it = build.Interp(dict(device=dev, register=reg, ops=[]))
    seq = it.seq
    chobj = list(it.device.channels.values())[0]
    try:
        pulse = build.mk_pulse(case["pulse"])
    except Exception:  # noqa: BLE001 - generator produced an unconstructible pulse
        ctx.label("unconstructible_pulse")
        return
    amp = np.asarray(pulse.amplitude.samples.as_array(), dtype=float)
    det = np.asarray(pulse.detuning.samples.as_array(), dtype=float)
    if not (np.all(np.isfinite(amp)) and np.all(np.isfinite(det))):
        ctx.label("non_finite_pulse(C16)")
        return
    # the oracle's own "inside every limit" predicate
    avg = float(np.mean(amp))
    inside = True
    if chobj.max_amp is not None and np.any(amp > chobj.max_amp):
        inside = False
    if chobj.max_abs_detuning is not None and np.any(np.abs(det) > chobj.max_abs_detuning):
        inside = False
    if chobj.min_avg_amp and 0 < avg < chobj.min_avg_amp:
        inside = False
    d = pulse.duration
    clk = chobj.clock_period
    newd = -(-d // clk) * clk
    if d < chobj.min_duration or (chobj.max_duration is not None and newd > chobj.max_duration):
        inside = False
    if not inside:
        ctx.label("outside_by_construction")
        # the other half of the statement on the same pairs: a pulse outside a limit of amplitude,
        # detuning or average amplitude (duration fine, nothing to lengthen) is not scheduled
        # (clearly outside: beyond the documented 1e-6 rounding of the comparisons)
        clearly = ((chobj.max_amp is not None and np.any(amp > chobj.max_amp + 2e-6))
                   or (chobj.max_abs_detuning is not None and np.any(np.abs(det) > chobj.max_abs_detuning + 2e-6))
                   or (chobj.min_avg_amp and 0 < avg < chobj.min_avg_amp - 2e-6))
        if clearly and d % clk == 0 and d >= chobj.min_duration and (chobj.max_duration is None or d <= chobj.max_duration):
            it.apply(dict(op="declare", name="ch", cid=0, style="kw",
                          **({"initial_target": [0]} if chobj.addressing == "Local" else {})))
            try:
                seq.add(pulse, "ch", protocol=case["protocol"])
            except Exception:  # noqa: BLE001 - refused: fine
                ctx.label("outside:refused")
                return
            which = ("avg_amp" if (chobj.min_avg_amp and 0 < avg < chobj.min_avg_amp) else
                     "amp" if (chobj.max_amp is not None and np.any(amp > chobj.max_amp)) else "det")
            ctx.fail("C01.sound", f"accepted_outside_limit:{which}",
                     f"pulse with average amplitude {avg:.6g}, max {amp.max():.6g}, max |det| {np.abs(det).max():.6g} accepted on "
                     f"a channel with min_avg_amp={chobj.min_avg_amp}, max_amp={chobj.max_amp}, "
                     f"max_abs_detuning={chobj.max_abs_detuning}")
        return
    if d % clk:
        # a waveform that cannot be re-sampled at the lengthened duration (interpolation
        # times collapsing onto one sample) cannot be "only lengthened": unspecified
        try:
            pulse.amplitude.change_duration(newd)
            pulse.detuning.change_duration(newd)
        except Exception:  # noqa: BLE001
            ctx.label("lengthening_impossible_for_this_waveform")
            return
    if d % clk:
        # lengthening keeps the AREA of a Blackman/Kaiser waveform and re-interpolates an
        # interpolated one: its peak can rise above max_amp (Kaiser 2 -> 3 ns) or its average
        # fall below min_avg_amp - the two halves of the statement then conflict (inside the
        # limits vs only lengthened) and acceptance is unspecified
        amp2 = np.asarray(pulse.amplitude.change_duration(newd).samples.as_array(), dtype=float)
        det2 = np.asarray(pulse.detuning.change_duration(newd).samples.as_array(), dtype=float)
        avg2 = float(np.mean(amp2))
        if ((chobj.max_amp is not None and np.any(amp2 > chobj.max_amp))
                or (chobj.max_abs_detuning is not None and np.any(np.abs(det2) > chobj.max_abs_detuning))
                or (chobj.min_avg_amp and 0 < avg2 < chobj.min_avg_amp)
                or not (np.all(np.isfinite(amp2)) and np.all(np.isfinite(det2)))):
            ctx.label("lengthened_pulse_outside_limits(conflict)")
            return
    ctx.nontrivial(case["at_limit"] or d % clk != 0)
    ctx.label("at_limit" if case["at_limit"] else "inside", "virtual" if case["virtual"] else "physical",
              "lengthened" if d % clk else "clock_multiple")
    kw = {}
    if cs["addr"] == "Local":
        kw["initial_target"] = "q0"
    ctx.must(lambda: seq.declare_channel("ch", list(it.device.channels)[0], **kw), C, "declare")
    try:
        seq.add(pulse, "ch", case["protocol"])
    except Exception as e:  # noqa: BLE001
        ctx.fail(C, f"refused:{type(e).__name__}:{'lengthen' if d % clk else 'exact'}",
                 f"pulse inside every limit refused: {type(e).__name__}: {e}; channel {cs}")
        return
    slot = seq._schedule["ch"].slots[-1]
    got = slot.type
    if d % clk == 0:
        if not (got == pulse) or got.duration != d:
            ctx.fail(C, "changed_although_clock_multiple", f"{pulse!r} -> {got!r}")
    else:
        if got.duration != newd:
            ctx.fail(C, "wrong_lengthening", f"{d} -> {got.duration}, expected {newd}")
        if wf_params(got.amplitude) != wf_params(pulse.amplitude) or wf_params(
                got.detuning) != wf_params(pulse.detuning):
            ctx.fail(C, "lengthening_changed_parameters", f"{pulse!r} -> {got!r}")
    if abs(float(got.phase) - float(pulse.phase)) > 1e-12:
        ctx.fail(C, "phase_changed", "")
    if abs(float(got.post_phase_shift) - float(pulse.post_phase_shift)) > 1e-12:
        ctx.fail(C, "pps_changed", "")


# ------------------------------------------------------------------ durations
def enum_duration_boxes(tier):
    clocks = range(1, 17)
    mins = range(1, 65) if tier == "thorough" else [1, 2, 3, 4, 5, 7, 8, 15, 16, 17, 20, 32, 52, 64]
    for clk in clocks:
        for mn in mins:
            yield dict(clock=clk, min=mn)


def check_durations(case, ctx: Ctx):
    from pulser.channels import Rydberg

    C = "C01.validate_duration"
    clk, mn = case["clock"], case["min"]
    maxes = [None] + list(range(mn, 601, 1 if ctx.tier == "thorough" else 37)) + [mn, mn + 1, 600]
    n = 0
    for mx in maxes:
        ch = Rydberg.Global(None, None, clock_period=clk, min_duration=mn, max_duration=mx)
        for d in range(0, 601):
            n += 1
            exp_ok = d >= mn and (mx is None or d <= mx)
            # inside [min, max] but the next clock multiple is above max: the
            # two halves of the statement conflict -> acceptance unspecified,
            # but an accepted duration must still end up <= max (checked below)
            conflict = exp_ok and mx is not None and -(-d // clk) * clk > mx
            try:
                got = ch.validate_duration(d)
                ok = True
            except ValueError:
                ok = False
            if ok != exp_ok and not conflict:
                ctx.fail(C, "accept_mismatch", f"d={d} clock={clk} min={mn} max={mx}: ok={ok}")
            if ok:
                exp = -(-d // clk) * clk
                if got != exp:
                    ctx.fail(C, "rounding", f"d={d} clock={clk}: {got} != {exp}")
                if mx is not None and got > mx:
                    ctx.fail(C, "rounded_above_max_duration",
                             f"validate_duration({d}) = {got} > max_duration {mx} (clock {clk}, min {mn})",
                             cont=True)
    ctx.bulk(n, n)
    ctx.nontrivial(True)


# ------------------------------------------------------------------ max_sequence_duration boundary
@st.composite
def msd_cases(draw, tier):
    prof = profile(tier)
    prof = dict(prof, fault_pct=0, min_ops=4, max_ops=14, min_channels=2,
                weights=dict(prof["weights"], add=16, declare_more=3, align=2, delay=2, target=3),
                device=gen.device_specs(n_channels=(2, 3), allow_builtin=False, max_seq=[None],
                                        chan_kw={"bandwidth": [None, None, 8]}))
    return dict(prog=draw(gen.programs(prof)), pick=draw(st.integers(0, 50)), delta=draw(st.integers(0, 17)))


def check_msd(case, ctx: Ctx):
    """Two passes: (1) run the program without a device limit and record the sequence
    duration after every call; (2) put max_sequence_duration 0..17 ns below the end of
    one chosen call and re-run: the C01 oracle (sequence <= limit after every successful
    call) is evaluated exactly on the boundary the first pass located."""
    import copy

    prog = copy.deepcopy(case["prog"])
    prog["device"].pop("max_sequence_duration", None)
    phys = prog["device"]["type"] == "physical"
    if phys:
        prog["device"]["max_sequence_duration"] = 10**7
    it = build.Interp(prog)
    ends = []
    for op in prog["ops"]:
        r, _ = it.apply(op)
        ends.append(it.seq.get_duration() if it.seq._schedule else 0)
    grow = [j for j in range(len(ends)) if ends[j] > (ends[j - 1] if j else 0)]
    if not grow:
        ctx.label("nothing_scheduled")
        return
    j = grow[case["pick"] % len(grow)]
    prev = ends[j - 1] if j else 0
    msd = max(ends[j] - case["delta"], prev, 1)
    prog["device"]["max_sequence_duration"] = int(msd)
    ctx.label("limit_cuts_call" if msd < ends[j] else "limit_equals_end", "op:" + prog["ops"][j]["op"])
    ctx.nontrivial(msd < ends[j])
    history.Walker(prog, ctx, {"C01"}).run()


CLAUSES = [
    Clause("sound", check_sound, gen=lambda t: gen.programs(profile(t)),
           budget={"quick": (12, 150), "thorough": (16, 3000)},
           doc="limits of every newly scheduled pulse after each successful call"),
    Clause("complete", check_complete, gen=lambda t: inside_cases(),
           budget={"quick": (4, 400), "thorough": (16, 5000)},
           doc="a pulse inside every limit is accepted, unchanged or only lengthened"),
    Clause("max_seq_boundary", check_msd, gen=lambda t: msd_cases(t),
           budget={"quick": (8, 100), "thorough": (16, 2500)},
           doc="max_sequence_duration placed 0..17 ns below the end of a chosen call (two-pass construction)"),
    Clause("durations", check_durations, enum=enum_duration_boxes,
           budget={"quick": (8, 0), "thorough": (16, 0)}, exhaustive=True,
           doc="Channel.validate_duration over duration x clock x min x max"),
]
