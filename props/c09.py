"""C09 - a sequence is exactly the effect of its successful calls."""
from __future__ import annotations

from pv import gen, history
from pv.engine import Clause, Ctx

RULE = (
    "Hypothesis-generated programs with ~25% deliberately invalid calls of "
    "every kind injected at every position (bad duration/amplitude/detuning, "
    "unknown qubit/channel/protocol/basis, too many targets, wrong mode, DMM via "
    "add, duplicate names, over-long sequence on devices with a small maximum "
    "duration so that failures occur after partial scheduling steps). Oracle: "
    "canonical snapshot before == after for every raising call and every "
    "read-only call; build()/switch_register(identical) == original. "
    "Non-trivial: >=1 raising call that comes after >=3 successful ones; "
    "distinct = distinct canonical JSON."
)
ASSUMPTIONS = [
    "snapshot() (pv/snapshot.py) observes all state that later calls depend on",
]


def profile(tier):
    return {
        "fault_pct": 25, "min_ops": 5, "max_ops": 30 if tier == "quick" else 50,
        "min_channels": 2, "stop_at_measure_p": 3,
        "weights": {"declare": 6, "declare_more": 1, "add": 10, "align": 2,
                    "delay": 3, "phase_shift": 2, "target": 3, "eom": 5, "measure": 1},
        "device": gen.device_specs(
            n_channels=(1, 4), allow_builtin=True,
            max_seq=[None, 600, 1000, 2000, 6000],
            chan_kw={"bandwidth": [None, 4, 8, 8, 20, 40]}),
    }


def check(case, ctx: Ctx):
    w = history.Walker(case, ctx, {"C09"}).run()
    w.check_c09_final()
    st_ = w.stats
    ctx.nontrivial(st_["fail_after3"] >= 1)
    if st_["raised"]:
        ctx.label("has_raising_call")
    if st_["fail_after3"]:
        ctx.label("raise_after_3_ok")
    if w.seq.is_parametrized():
        ctx.label("parametrized")


CLAUSES = [
    Clause("effects", check, gen=lambda t: gen.programs(profile(t)),
           budget={"quick": (16, 80), "thorough": (16, 3000)},
           doc="C09.atomic (raising calls), C09.readonly, C09.rebuild"),
]
