"""C09 - a sequence is exactly the effect of its successful calls."""
from __future__ import annotations

from hypothesis import strategies as st

from pv import gen, history
from pv.engine import Clause, Ctx

RULE = (
    "Hypothesis-generated programs with ~25% deliberately invalid calls of "
    "every kind injected at every position (bad duration/amplitude/detuning, "
    "unknown qubit/channel/protocol/basis, too many targets, wrong mode, DMM via "
    "add, duplicate names, over-long sequence on devices with a small maximum "
    "duration so that failures occur after partial scheduling steps). Oracle: "
    "canonical snapshot before == after for every raising call and every "
    "read-only call; build()/switch_register(identical) == original. "
    "Non-trivial: >=1 raising call that comes after >=3 successful ones; "
    "distinct = distinct canonical JSON."
)
ASSUMPTIONS = [
    "snapshot() (pv/snapshot.py) observes all state that later calls depend on",
]


def profile(tier):
    return {
        "fault_pct": 25, "min_ops": 5, "max_ops": 30 if tier == "quick" else 50, "magfield": True,
        "min_channels": 2, "stop_at_measure_p": 3,
        "weights": {"declare": 6, "declare_more": 1, "add": 10, "align": 2,
                    "delay": 3, "phase_shift": 2, "target": 3, "eom": 5, "measure": 1},
        "device": gen.device_specs(
            n_channels=(1, 4), allow_builtin=True,
            max_seq=[None, 600, 1000, 2000, 6000],
            chan_kw={"bandwidth": [None, 4, 8, 8, 20, 40]}),
        "register": st.one_of(gen.register_specs(), gen.register_specs(), gen.register_specs(),
                              gen.register_specs(n=(2, 5), mappable=True, dim=2)),
    }


def check(case, ctx: Ctx):
    w = history.Walker(case, ctx, {"C09"}).run()
    w.check_c09_final()
    st_ = w.stats
    ctx.nontrivial(st_["fail_after3"] >= 1)
    if st_["raised"]:
        ctx.label("has_raising_call")
    if st_["fail_after3"]:
        ctx.label("raise_after_3_ok")
    if w.seq.is_parametrized():
        ctx.label("parametrized")


def profile_eom(tier):
    """EOM-heavy histories (enable / modify / pulses / disable with drift correction): the
    record of calls must rebuild the same timeline and phase references."""
    p = profile(tier)
    return dict(p, fault_pct=8, min_ops=6, max_ops=24,
                weights={"declare": 6, "declare_more": 1, "add": 6, "align": 1, "delay": 2,
                         "phase_shift": 1, "target": 1, "eom": 14, "measure": 0},
                device=gen.device_specs(n_channels=(1, 2), allow_builtin=False, allow_dmm=False,
                                        max_seq=[None, None, 6000],
                                        chan_kw={"kind": "Rydberg", "eom": True, "bandwidth": [8, 40]}))


@st.composite
def var_cases(draw, tier):
    """A generated history with declared variables and calls that use a variable for the
    first time but must be refused for another reason (unknown channel / protocol / qubit /
    basis, index on a global channel): the refused call must not leave the sequence
    parametrized (or otherwise changed)."""
    prog = draw(gen.programs(dict(profile(tier), fault_pct=10, max_ops=18)))
    ops = list(prog["ops"])
    first_decl = next((i for i, o in enumerate(ops) if o["op"] == "declare"), None)
    if first_decl is None:
        return prog
    p0 = draw(st.integers(0, len(ops)))
    decl = [dict(op="declare_var", name="x", size=None, dtype="float"),
            dict(op="declare_var", name="n", size=None, dtype="int")]
    ops[p0:p0] = decl
    lo = max(p0 + 2, first_decl + 1 + (2 if p0 <= first_decl else 0))
    for _ in range(draw(st.integers(1, 3))):
        f = draw(st.sampled_from(["var_channel", "var_protocol", "var_qubit", "var_basis", "var_index_global",
                                  "var_then_foreign_name"]))
        if f == "var_channel":
            op = dict(op="delay", ch="ghost", d={"var": "n"}, fault=f)
        elif f == "var_protocol":
            op = dict(op="add", ch=0, protocol="asap", fault=f,
                      pulse=dict(k="const_pulse", d={"var": "n"}, amp={"var": "x"}, det=0.0, phase=0.0))
        elif f == "var_qubit":
            op = dict(op="phase_shift", phi={"var": "x"}, qubits=["nope"], fault=f)
        elif f == "var_basis":
            op = dict(op="phase_shift", phi={"var": "x"}, qubits=[0], basis="nope", fault=f)
        elif f == "var_index_global":
            op = dict(op="target_index", ch=0, index={"var": "n"}, fault=f)
        else:
            op = dict(op="delay", ch={"var": "x"}, d={"var": "n"}, fault=f)
        pos = draw(st.integers(min(lo, len(ops)), len(ops)))
        ops.insert(pos, op)
    return dict(prog, ops=ops)


def check_vars(case, ctx: Ctx):
    w = history.Walker(case, ctx, {"C09"}).run()
    st_ = w.stats
    nvar = sum(1 for o in case["ops"] if str(o.get("fault", "")).startswith("var_"))
    ctx.nontrivial(nvar >= 1 and st_["raised"] >= 1)
    ctx.label("parametrized_at_end" if w.seq.is_parametrized() else "concrete_at_end")
    if not w.seq.is_parametrized():
        w.check_c09_final()


CLAUSES = [
    Clause("effects", check, gen=lambda t: gen.programs(profile(t)),
           budget={"quick": (16, 80), "thorough": (16, 600)},
           doc="C09.atomic (raising calls), C09.readonly, C09.rebuild"),
    Clause("eom_rebuild", check, gen=lambda t: gen.programs(profile_eom(t)),
           budget={"quick": (8, 60), "thorough": (16, 400)},
           doc="EOM-heavy histories: atomicity of refused EOM controls and rebuild from the call record"),
    Clause("variables", check_vars, gen=lambda t: var_cases(t),
           budget={"quick": (8, 60), "thorough": (16, 400)},
           doc="refused calls that use a declared variable for the first time"),
]
