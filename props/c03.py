"""C03 - addressing-conflict protocols: no conflict, minimal delay, exact estimate, align."""
from __future__ import annotations

from hypothesis import strategies as st

from pv import gen, history
from pv.engine import Clause, Ctx

RULE = (
    "Hypothesis-generated programs over >=2 channels (global/local, same or "
    "different basis, DMM, EOM; modulation bandwidths from 1.5 to 480 MHz so "
    "that fall times differ), every protocol, overlapping/disjoint target sets, "
    "interleaved phase shifts; before each add-like op estimate_added_delay is "
    "called with the same arguments. Oracle: M2 reference start-time model on the "
    "pre-call timeline. Non-trivial: a conflicting pulse on another channel that "
    "ends (with its fall time) after the channel's current end, or an align where "
    "a channel has a pending fall time; distinct = distinct canonical JSON."
)
ASSUMPTIONS = [
    "Pulse.fall_time(channel, in_eom) is taken as given (judged by C14)",
    "M3 phase-shift times: a shift takes effect at the end of the last pulse "
    "that used the atom in that basis",
    "two phases closer than 1e-9 rad mod 2pi may or may not count as a phase change",
]


def profile(tier):
    return {
        "fault_pct": 4, "min_ops": 6, "max_ops": 35 if tier == "quick" else 60,
        "min_channels": 2, "measure": False, "slm": False,
        "weights": {"declare": 8, "declare_more": 2, "add": 12, "align": 4,
                    "delay": 2, "phase_shift": 2, "target": 3, "eom": 4},
        "device": gen.device_specs(
            n_channels=(2, 4), allow_builtin=True,
            chan_kw={"bandwidth": [None, 1.5, 4, 8, 8, 20, 40, 150]}),
    }


def profile_local(tier):
    """Several local channels over 2-3 atoms with frequent retargets: a channel's
    most recent pulse is often NOT the one that conflicts (stale conflicts)."""
    p = profile(tier)
    return dict(p, min_ops=8, max_ops=30 if tier == "quick" else 50, fault_pct=0,
                weights={"declare": 8, "declare_more": 3, "add": 14, "align": 1, "delay": 1,
                         "phase_shift": 1, "target": 8, "eom": 0},
                device=gen.device_specs(n_channels=(2, 3), allow_builtin=False, allow_dmm=False,
                                        chan_kw={"addr": "Local", "eom": False,
                                                 "bandwidth": [None, 4, 8, 20]}),
                register=gen.register_specs(n=(2, 3)))


def profile_align_fall(tier):
    """Two modulated channels whose custom phase-jump time is below twice the rise time, pulses
    followed by short delays, frequent align(at_rest=...): the latest end counting fall time."""
    def force(d):
        import copy

        d = copy.deepcopy(d)
        for i, c in enumerate(d["channels"]):
            c["custom_phase_jump_time"] = [0, 20, 40, 0][i % 4]
        return d

    p = profile(tier)
    return dict(p, min_ops=6, max_ops=24, fault_pct=1, max_channels=2,
                weights={"declare": 8, "declare_more": 2, "add": 8, "align": 8, "delay": 10,
                         "phase_shift": 0, "target": 2, "eom": 0},
                device=gen.device_specs(n_channels=(2, 2), allow_builtin=False, allow_dmm=False,
                                        chan_kw={"bandwidth": [2, 4, 8, 20], "eom": False}).map(force))


def check(case, ctx: Ctx):
    w = history.Walker(case, ctx, {"C03"}).run()
    st_ = w.stats
    ctx.nontrivial(st_["nt_c03"] >= 1)
    if st_["conflicts"]:
        ctx.label("conflict_needing_delay")
    if st_["align_fall"]:
        ctx.label("align_with_pending_fall")
    if w.aborted:
        ctx.label("aborted_partial_effect(C09)")
    ctx.label(f"channels={min(len(w.seq._schedule), 4)}")


CLAUSES = [
    Clause("protocols", check, gen=lambda t: gen.programs(profile(t)),
           budget={"quick": (16, 150), "thorough": (16, 5000)},
           doc="C03.no_delay / no_conflict / minimal / estimate / align per step"),
    Clause("local_retarget", check, gen=lambda t: gen.programs(profile_local(t)),
           budget={"quick": (8, 150), "thorough": (16, 3000)},
           doc="local channels only, frequent retargets (stale conflicts)"),
    Clause("align_after_short_delays", check, gen=lambda t: gen.programs(profile_align_fall(t)),
           budget={"quick": (8, 100), "thorough": (16, 2000)},
           doc="align / min-delay after pulses followed by short delays on channels with a short custom phase-jump time"),
]
