"""C14 - output modulation is an area-preserving low-pass and fall times cover it."""
from __future__ import annotations

import math

import numpy as np
from hypothesis import strategies as st

from pv import build, gen, history
from pv.engine import Clause, Ctx

RULE = (
    "(filter) Hypothesis-generated sample arrays (waveforms of every class, "
    "sign-changing shapes, isolated spikes, random arrays) x modulation "
    "bandwidths 1.5..480 MHz (and EOM bandwidths) against M7, a direct "
    "time-domain convolution with the analytic Gaussian kernel on a widely "
    "zero-padded signal, and against the algebraic laws (linearity, integral, "
    "positivity, maximum, length, gain 1/2 at the bandwidth). (fall) isolated "
    "generated pulses: M7 output beyond the accounted fall time. (sequence) "
    "generated programs incl. declared-but-empty channels: modulated sampling "
    "succeeds whenever plain sampling does and the arrays end at the duration "
    "including fall time. Non-trivial: max|x| > 0.1 and rise_time >= 2 samples; "
    "distinct = distinct canonical JSON."
)
ASSUMPTIONS = [
    "M7: sigma_t = sqrt(ln 2)/(sqrt(2) pi bw); the tree's FFT is circular, so up to "
    "~0.6% of the signal may wrap around the rise-time padding (tolerance stated per clause)",
]

BWS = [1.5, 4, 8, 20, 40, 150, 480]


def sigma_t(bw):
    return math.sqrt(math.log(2)) / (math.sqrt(2) * math.pi * bw * 1e-3)


def m7(x: np.ndarray, bw: float, pad: int) -> np.ndarray:
    """Reference low-pass: returns the output on [-pad, len(x)+pad)."""
    fc = bw * 1e-3 / math.sqrt(math.log(2))
    K = int(max(10 * sigma_t(bw), 4)) + 1
    k = np.arange(-K, K + 1)
    h = fc * math.sqrt(math.pi) * np.exp(-(math.pi * fc * k) ** 2)
    xp = np.concatenate([np.zeros(pad + K), x, np.zeros(pad + K)])
    y = np.convolve(xp, h, mode="same")
    return y[K:-K]


def _channel(bw, eom_bw=None):
    from pulser.channels import Rydberg
    from pulser.channels.eom import RydbergBeam, RydbergEOM

    kw = {}
    if eom_bw:
        kw["eom_config"] = RydbergEOM(
            limiting_beam=RydbergBeam.RED, max_limiting_amp=30 * 2 * math.pi,
            intermediate_detuning=450 * 2 * math.pi, mod_bandwidth=eom_bw,
            controlled_beams=(RydbergBeam.BLUE,))
    return Rydberg.Global(None, None, mod_bandwidth=bw, **kw)


class _Refused(Exception):
    pass


def channel(bw, eom_bw=None):
    """Whether a channel with these parameters can be constructed is C12's subject; the
    statements here are about channels that exist."""
    try:
        return _channel(bw, eom_bw)
    except Exception as e:  # noqa: BLE001
        raise _Refused(f"{type(e).__name__}: {e}") from None


def _skip_refused(fn):
    def wrapped(case, ctx):
        try:
            return fn(case, ctx)
        except _Refused:
            ctx.label("channel_refused_by_constructor")
    wrapped.__name__ = fn.__name__
    return wrapped


@st.composite
def signal_cases(draw):
    bw = draw(st.sampled_from(BWS))
    d = draw(st.integers(1, 400))
    kind = draw(st.sampled_from(["wf", "wf", "spike", "random", "step"]))
    lo, hi = draw(st.sampled_from([(0.0, 10.0), (-20.0, 20.0), (0.0, 1.0), (-5.0, 0.0)]))
    if kind == "wf":
        sig = dict(wf=draw(gen.waveform_specs(d, lo, hi)))
    elif kind == "spike":
        pos = sorted(set(draw(st.lists(st.integers(0, d - 1), min_size=1, max_size=3))))
        sig = dict(spikes=[[p, draw(gen.fl(lo, hi))] for p in pos], d=d)
    elif kind == "step":
        sig = dict(step=[draw(st.integers(0, d - 1)), draw(gen.fl(lo, hi)), draw(gen.fl(lo, hi))], d=d)
    else:
        sig = dict(samples=[draw(gen.fl(lo, hi)) for _ in range(min(d, 60))])
    sig2 = dict(wf=draw(gen.waveform_specs(d if "samples" not in sig else len(sig["samples"]), lo, hi,
                                           kinds=["const", "ramp", "custom"] if d <= 60 else ["const", "ramp"])))
    return dict(bw=bw, x=sig, y=sig2, a=draw(gen.fl(-3, 3)), b=draw(gen.fl(-3, 3)),
                eom=draw(st.sampled_from([None, None, 40, 100])))


def mk_sig(s) -> np.ndarray:
    if "wf" in s:
        return np.asarray(build.mk_wf(s["wf"]).samples.as_array(), dtype=float)
    if "spikes" in s:
        x = np.zeros(s["d"])
        for p, v in s["spikes"]:
            x[p] = v
        return x
    if "step" in s:
        x = np.full(s["d"], s["step"][1])
        x[s["step"][0]:] = s["step"][2]
        return x
    return np.asarray(s["samples"], dtype=float)


@_skip_refused
def check_filter(case, ctx: Ctx):
    C = "C14.filter"
    bw = case["bw"]
    eom = case["eom"]
    ch = channel(bw, eom)
    try:
        x, y = mk_sig(case["x"]), mk_sig(case["y"])
    except Exception:  # noqa: BLE001
        ctx.label("unconstructible")
        return
    if not (np.all(np.isfinite(x)) and np.all(np.isfinite(y))) or len(x) != len(y):
        ctx.label("degenerate")
        return
    tr = ch.rise_time
    mx = float(np.max(np.abs(x)))
    ctx.nontrivial(mx > 0.1 and tr >= 2)
    st_ = sigma_t(bw)
    ctx.label(f"bw={bw}")
    modes = [(False, bw, tr)]
    if eom:
        modes.append((True, eom, ch.eom_config.rise_time))
    for (use_eom, b, r) in modes:
        mod = lambda v: np.asarray(ctx.must(  # noqa: E731
            lambda: ch.modulate(v, eom=use_eom), C, "modulate").as_array(), dtype=float)
        out = mod(x)
        tag = "eom" if use_eom else "std"
        if len(out) != len(x) + 2 * r:
            ctx.fail(C, f"length:{tag}", f"{len(out)} != {len(x)} + 2*{r}")
        scale = max(mx, 1e-12)
        # linearity
        a, bb = case["a"], case["b"]
        lhs = mod(a * x + bb * y)
        rhs = a * out + bb * mod(y)
        lin_scale = max(float(np.max(np.abs(a * x + bb * y))), float(np.max(np.abs(a * x))) + float(np.max(np.abs(bb * y))), 1e-12)
        if np.max(np.abs(lhs - rhs)) > 1e-9 * lin_scale:
            ctx.fail(C, f"linearity:{tag}", f"{np.max(np.abs(lhs - rhs))}")
        # integral
        if abs(out.sum() - x.sum()) > 1e-9 * max(np.abs(x).sum(), 1e-12):
            ctx.fail(C, f"integral:{tag}", f"sum out {out.sum()} vs sum in {x.sum()} (bw {b})")
        # positivity / maximum
        # transfer function at the Nyquist frequency: when it is not negligible
        # the truncated spectrum rings (listed finding for very high bandwidths)
        fc_ = b * 1e-3 / math.sqrt(math.log(2))
        small = math.exp(-0.25 / fc_ ** 2) > 1e-9
        if np.all(x >= 0):
            if out.min() < -1e-9 * scale:
                ctx.fail(C, f"positivity:{'nyquist_gain>1e-9' if small else 'nyquist_gain<=1e-9'}",
                         f"bw {b} MHz: non-negative input (max {mx}) gives output min {out.min()}", cont=True)
            if out.max() > mx * (1 + 1e-9) + 1e-15:
                ctx.fail(C, f"maximum:{'nyquist_gain>1e-9' if small else 'nyquist_gain<=1e-9'}",
                         f"bw {b} MHz: output max {out.max()} > input max {mx}", cont=True)
        # keep_ends=True (the ends are held instead of ramping from zero): same length, and
        # the same output as the plain filter when the input is zero at both ends anyway
        # (the tree pads circularly: 2% of the peak allowed where it wraps)
        ke = np.asarray(ctx.must(lambda: ch.modulate(x, eom=use_eom, keep_ends=True), C,
                                 "modulate(keep_ends)").as_array(), dtype=float)
        if len(ke) != len(x) + 2 * r:
            ctx.fail(C, f"length:keep_ends:{tag}", f"{len(ke)} != {len(x)} + 2*{r} (bw {bw}, eom bw {eom})")
        elif len(x) >= 2 and x[0] == 0 and x[-1] == 0 and np.max(np.abs(ke - out)) > 2e-2 * scale + 1e-12:
            ctx.fail(C, f"keep_ends_differs_on_zero_ended_input:{tag}", f"{np.max(np.abs(ke - out))}")
        # pointwise agreement with M7
        ref = m7(x, b, r)
        if len(ref) == len(out) and sigma_t(b) >= 2:
            err = float(np.max(np.abs(ref - out)))
            zero_ends = (len(x) > 0 and np.all(x[: int(9 * sigma_t(b)) + 1] == 0)
                         and np.all(x[-(int(9 * sigma_t(b)) + 1):] == 0))
            tol = 1e-9 * scale if (sigma_t(b) >= 2 and zero_ends and len(x) > 18 * sigma_t(b) + 2) else 6e-3 * scale
            if err > tol:
                ctx.fail(C, f"reference_filter:{tag}", f"bw {b}: max deviation {err} > {tol}")


def enum_tone(tier):
    for bw in BWS:
        for eom in (None, 40):
            yield dict(bw=bw, eom=eom)


@_skip_refused
def check_tone(case, ctx: Ctx):
    C = "C14.tone"
    bw = case["bw"]
    ch = channel(bw, case["eom"])
    ctx.nontrivial(True)
    for use_eom, b in [(False, bw)] + ([(True, case["eom"])] if case["eom"] else []):
        f = b * 1e-3  # cycles per ns
        if f >= 0.45:
            ctx.label("above_nyquist")
            continue
        n = int(round(2000 / f / 100)) * 100
        n = max(n, 4000)
        # whole number of periods so the circular transform sees a pure tone
        periods = round(n * f)
        n = int(round(periods / f))
        t = np.arange(n)
        x = np.cos(2 * np.pi * periods / n * t)
        out = np.asarray(ch.modulate(x, eom=use_eom).as_array(), dtype=float)
        r = (len(out) - n) // 2
        mid = out[r + n // 4: r + 3 * n // 4]
        gain = float(np.max(np.abs(mid)))
        exp = math.exp(-((periods / n) ** 2) / (b * 1e-3 / math.sqrt(math.log(2))) ** 2)
        if abs(gain - 0.5) > 2e-3 and abs(gain - exp) > 2e-3:
            ctx.fail(C, "gain_at_bandwidth", f"bw {b}: gain {gain} (expected 0.5)")


# ------------------------------------------------------------------ fall time
def _wf_d(w):
    return sum(_wf_d(x) for x in w["parts"]) if w["k"] == "composite" else w["d"]


@st.composite
def fall_cases(draw):
    bw = draw(st.sampled_from([1.5, 4, 8, 20, 40, 150]))
    cs = dict(kind="Rydberg", addr="Global", max_amp=None, max_abs_detuning=None,
              max_duration=None, mod_bandwidth=bw)
    eom = draw(st.sampled_from([None, 20, 40, 100]))
    p = draw(gen.pulse_specs(cs))
    if draw(st.integers(0, 2)) == 0:
        # amplitude alone decides the fall time: zero / smoothly ending detuning and an
        # amplitude that is asymmetric in time (start and end buffers differ)
        d = draw(st.sampled_from([16, 52, 100, 203, 400]))
        hi = draw(gen.fl(0.5, 12.0))
        amp = draw(st.sampled_from([
            dict(k="ramp", d=d, a=0.0, b=hi),
            dict(k="ramp", d=d, a=hi, b=0.0),
            dict(k="interp", d=d, values=[0.0, 0.2 * hi, hi]),
            dict(k="composite", parts=[dict(k="blackman", d=d, area=hi * d * 0.42e-3),
                                       dict(k="const", d=max(d // 2, 1), v=hi)]),
            dict(k="composite", parts=[dict(k="const", d=max(d // 2, 1), v=hi),
                                       dict(k="blackman", d=d, area=hi * d * 0.42e-3)]),
        ]))
        det = draw(st.sampled_from([dict(k="const", d=_wf_d(amp), v=0.0),
                                    dict(k="blackman", d=_wf_d(amp), area=-1.0)]))
        p = dict(k="pulse", amp=amp, det=det, phase=0.0)
    elif draw(st.integers(0, 2)) == 0:
        # detuning alone decides it: the amplitude ends at zero and the two ends of the
        # detuning differ (flat at zero then rising, gentle ramp, or the mirror images)
        d = draw(st.sampled_from([16, 52, 100, 203, 400]))
        x = draw(st.sampled_from([-1.0, 1.0])) * draw(gen.fl(2.0, 40.0))
        h = max(d // 2, 1)
        det = draw(st.sampled_from([
            dict(k="ramp", d=d, a=0.0, b=x),
            dict(k="ramp", d=d, a=x, b=0.0),
            dict(k="composite", parts=[dict(k="const", d=h, v=0.0), dict(k="ramp", d=d - h if d > h else 1, a=0.0, b=x)]),
            dict(k="composite", parts=[dict(k="ramp", d=h, a=x, b=0.0), dict(k="const", d=d - h if d > h else 1, v=0.0)]),
            dict(k="interp", d=d, values=[0.0, 0.0, 0.1 * x, x]),
            # a short tail of the opposite sign: the output crosses zero on its way down
            dict(k="composite", parts=[dict(k="const", d=d, v=x), dict(k="const", d=48, v=-0.2 * x)]),
        ]))
        amp = dict(k="blackman", d=_wf_d(det), area=1.0)
        p = dict(k="pulse", amp=amp, det=det, phase=0.0)
    return dict(bw=bw, eom=eom, pulse=p)


@_skip_refused
def check_fall(case, ctx: Ctx):
    C = "C14.fall_time"
    ch = channel(case["bw"], case["eom"])
    try:
        p = build.mk_pulse(case["pulse"])
    except Exception:  # noqa: BLE001
        ctx.label("unconstructible")
        return
    xa = np.asarray(p.amplitude.samples.as_array(), dtype=float)
    xd = np.asarray(p.detuning.samples.as_array(), dtype=float)
    if not (np.all(np.isfinite(xa)) and np.all(np.isfinite(xd))):
        return
    ctx.nontrivial(max(np.max(np.abs(xa)), np.max(np.abs(xd))) > 0.1)
    for in_eom, b in [(False, case["bw"])] + ([(True, case["eom"])] if case["eom"] else []):
        ft = int(ctx.must(lambda: p.fall_time(ch, in_eom_mode=in_eom), C, "fall_time"))
        if ft < 0:
            ctx.fail(C, "negative", str(ft))
        pad = ft + int(12 * sigma_t(b)) + 50
        for name, x in (("amp", xa), ("det", xd)):
            ref = m7(x, b, pad)  # index i <-> time i - pad
            tail = ref[pad + len(x) + ft:]
            lim = max(0.01, 0.006 * float(np.max(np.abs(x))))
            if tail.size and float(np.max(np.abs(tail))) > lim:
                i = int(np.argmax(np.abs(tail)))
                ctx.fail(C, f"residual_after_fall_time:{name}:{'eom' if in_eom else 'std'}",
                         f"bw {b} MHz: {name} output {tail[i]:.4g} at {ft + i} ns after the pulse end "
                         f"(fall time {ft}, limit {lim:.4g}, peak {np.max(np.abs(x)):.4g})", cont=True)
    # the waveform-level view (Waveform.modulated_samples, used by drawing): the channel's output
    # cut to the waveform's own buffers - same numbers as Channel.modulate, nothing above the
    # bound left out
    for name, wf, x in (("amp", p.amplitude, xa), ("det", p.detuning, xd)):
        tr = int(ch.rise_time)
        start, end = (int(v) for v in ctx.must(lambda: wf.modulation_buffers(ch), C, "modulation_buffers"))
        got = np.asarray(ctx.must(lambda: wf.modulated_samples(ch), C, "modulated_samples").as_array(), dtype=float)
        full = np.asarray(ch.modulate(x).as_array(), dtype=float)
        exp = full[tr - start: len(full) - tr + end]
        if got.shape != exp.shape or (got.size and np.max(np.abs(got - exp)) > 1e-9 * max(1.0, float(np.max(np.abs(x))))):
            ctx.fail(C, f"waveform_modulated_samples:{name}",
                     f"bw {case['bw']} MHz, buffers ({start}, {end}), rise time {tr}: {len(got)} samples, expected "
                     f"{len(x)} + {start} + {end} = {len(exp)} equal to that part of Channel.modulate", cont=True)
            break


# ------------------------------------------------------------------ sequences
def profile(tier):
    return {
        "fault_pct": 3, "min_ops": 3, "max_ops": 20 if tier == "quick" else 35,
        "min_channels": 2, "measure": False, "slm": False,
        "weights": {"declare": 8, "declare_more": 3, "add": 10, "align": 1,
                    "delay": 2, "phase_shift": 1, "target": 3, "eom": 4,
                    "add_dmm": 3, "detmap": 2},
        "device": gen.device_specs(n_channels=(1, 4), allow_builtin=True,
                                   chan_kw={"bandwidth": [None, 4, 8, 8, 20, 40]}),
        "register": gen.register_specs(n=(1, 4), layout=False),
    }


def check_seq(case, ctx: Ctx):
    from pulser.sampler import sample

    C = "C14.sequence"
    w = history.Walker(case, ctx, set()).run()
    seq = w.seq
    if w.aborted or seq.is_parametrized() or not seq._schedule or seq.is_register_mappable():
        return
    try:
        plain = sample(seq)
    except Exception:  # noqa: BLE001
        ctx.label("plain_sampling_refused")
        return
    empty = [n for n, cs in seq._schedule.items() if cs.get_duration() == 0]
    ctx.nontrivial(any(cs.channel_obj.mod_bandwidth for cs in seq._schedule.values()))
    if empty:
        ctx.label("has_empty_channel")
    mod = ctx.must(lambda: sample(seq, modulation=True), C, "sample(seq, modulation=True)")
    for n, cs in mod.channel_samples.items():
        exp = seq.get_duration(n, include_fall_time=True)
        for key in ("amp", "det", "phase"):
            arr = np.asarray(getattr(cs, key).as_array(), dtype=float)
            if len(arr) != exp:
                ctx.fail(C, f"length:{key}", f"{n}: {len(arr)} != duration incl. fall time {exp}")
            if not np.all(np.isfinite(arr)):
                ctx.fail(C, f"non_finite:{key}", n)
    # independent of the tree's own duration bookkeeping: (i) the arrays end where the last
    # pulses have ramped down by the harness' account (end of each pulse + Pulse.fall_time),
    # (ii) nothing of the output is cut off: the modulated amplitude keeps the programmed area
    from pulser import Pulse as _Pulse

    view = history.View(seq)
    for n, cs in mod.channel_samples.items():
        cv = view.ch.get(n)
        if cv is None or cv.blocks or cv.is_dmm or not cv.obj.mod_bandwidth:
            continue
        exp_all = cv.end
        for sl in cv.slots:
            if isinstance(sl[0], _Pulse) and cv.end - sl[2] < 2 * cv.obj.rise_time:
                exp_all = max(exp_all, sl[2] + cv.fall(sl))
        lp = cv.last_pulse()
        exp_last = cv.end if lp is None else max(cv.end, lp[2] + cv.fall(lp))
        n_amp = len(np.asarray(cs.amp.as_array()))
        if n_amp not in (exp_all, exp_last):
            ctx.fail(C, "length_vs_own_fall_time",
                     f"{n}: modulated arrays have {n_amp} samples, pulses have ramped down at {exp_last}/{exp_all}")
        # what the sampler cuts off at the end must be negligible: the full modulated output
        # of the programmed amplitude (Channel.modulate, judged by the filter clause) beyond
        # the last returned sample stays below max(0.01 rad/us, 0.6 % of the peak)
        x = np.asarray(plain.channel_samples[n].amp.as_array(), dtype=float)
        if x.size and np.any(x):
            full = np.asarray(cv.obj.modulate(x).as_array(), dtype=float)  # index i <-> time i - rise_time
            tail = full[cv.obj.rise_time + n_amp:]
            # (the statement bounds the tail of ONE isolated pulse: tails of neighbouring
            #  pulses add up)
            near = sum(1 for sl in cv.slots if isinstance(sl[0], _Pulse) and cv.end - sl[2] < 4 * cv.obj.rise_time)
            lim = max(0.01, 0.006 * float(np.max(np.abs(x)))) * max(1, near)
            if tail.size and float(np.max(np.abs(tail))) > lim:
                ctx.fail(C, "modulated_samples_cut_while_output_is_high",
                         f"{n}: arrays end at {n_amp} ns where the output is still {float(np.max(np.abs(tail))):.4f} "
                         f"rad/us (limit {lim:.4f}); last pulse ends at {lp[2] if lp else None}, rise time {cv.obj.rise_time}")
    T = max(seq.get_duration(n, include_fall_time=True) for n in seq._schedule)
    ext = ctx.must(lambda: sample(seq, modulation=True, extended_duration=T + 13), C,
                   "sample(modulation, extended)")
    for n, cs in ext.channel_samples.items():
        if cs.duration != T + 13:
            ctx.fail(C, "length:extended", f"{n}: {cs.duration} != {T + 13}")
        # asking for more time only appends: what the plain call returns is the beginning of
        # what the extended call returns (also for channels with EOM blocks, whose blocks,
        # buffers and ordinary parts are filtered separately and stitched with masks)
        short = mod.channel_samples[n]
        cv = view.ch.get(n)
        eom_cfg = getattr(cv.obj, "eom_config", None) if cv is not None else None
        if cv is not None and cv.blocks and eom_cfg is not None and cv.obj.mod_bandwidth and \
                eom_cfg.mod_bandwidth < cv.obj.mod_bandwidth:
            # an EOM slower than its channel: the tree filters the whole channel at the EOM bandwidth
            # and masks that to the EOM blocks, so the slow tail of an earlier ordinary pulse shows up
            # inside a following block (only where the arrays are long enough to hold it). What the
            # output is there is not something the statement says (DESIGN section 9, #45)
            ctx.label("eom_slower_than_channel(prefix check skipped)")
            continue
        if cv is not None and cv.blocks:
            # EOM blocks that hold no EOM pulse (enable directly followed by disable, or left open and
            # empty): the tree stitches the separately filtered parts differently in its two code paths
            # (the ordinary pulse AFTER such a block comes out at the EOM bandwidth in one and at the
            # channel's in the other); which is meant is not something the statement decides (#47)
            def _has_pulse(bti, btf):
                hi = btf if btf is not None else 10**12
                return any(isinstance(sl[0], _Pulse) and bti <= sl[1] < hi and
                           float(np.max(np.asarray(sl[0].amplitude.samples.as_array()))) > 0 for sl in cv.slots)
            if not all(_has_pulse(b_[0], b_[1]) for b_ in cv.blocks):
                ctx.label("empty_eom_block(prefix check skipped)")
                continue
        # (amplitude only: the detuning is filtered with its ends held, and what the tree does
        #  with the held ends where the array stops is not part of the statement)
        for key in ("amp",):
            a = np.asarray(getattr(short, key).as_array(), dtype=float)
            b = np.asarray(getattr(cs, key).as_array(), dtype=float)[:len(a)]
            # (one rise time at each end left out: that is where the wrap-around lands)
            r_ = int(cv.obj.rise_time) if cv is not None and cv.obj.mod_bandwidth else 0
            if r_ and len(a) > 2 * r_:
                a, b = a[r_:-r_], b[r_:-r_]
            # (the tree's filter wraps around the ends of what it is given, so the two calls differ
            #  slightly near t=0: 2 % of the peak allowed, as for keep_ends in the filter clause)
            pk = float(np.max(np.abs(np.asarray(getattr(plain.channel_samples[n], key).as_array(), dtype=float)))) \
                if plain.channel_samples[n].duration else 0.0
            if cv is not None and cv.blocks:
                # channels with EOM blocks: the tree's two code paths stitch the separately filtered parts
                # differently in several corner cases (#45, #47, #48), so only the unambiguous signature is
                # judged here: the fall after the last input sample must be IN the array - not identically
                # zero where the extended call shows output
                n_in = int(plain.channel_samples[n].duration) - r_
                tail_a, tail_b = a[max(n_in, 0):], b[max(n_in, 0):]
                # (sequences at least two rise times long: below that the filters see nothing but edges)
                if n_in >= 2 * r_ and tail_a.size and float(np.max(np.abs(tail_a))) == 0.0 \
                        and float(np.max(np.abs(tail_b))) > 0.01 + 0.02 * pk:
                    ctx.fail(C, f"modulated_samples_differ_from_extended_sampling:{key}:eom",
                             f"{n}: the {len(tail_a)} samples after the last input sample are identically zero with "
                             f"sample(modulation=True) and reach {float(np.max(np.abs(tail_b))):.4g} with an extended duration")
                continue
            if a.shape == b.shape and a.size and np.max(np.abs(a - b)) > 0.01 + 0.02 * pk:
                i = int(np.argmax(np.abs(a - b)))
                ctx.fail(C, f"modulated_samples_differ_from_extended_sampling:{key}:{'eom' if cv is not None and cv.blocks else 'std'}",
                         f"{n}: {key}[{i}] = {a[i]:.6g} with sample(modulation=True), {b[i]:.6g} with an extended "
                         f"duration (arrays of {len(a)} samples, last pulse ends at "
                         f"{cv.last_pulse()[2] if cv is not None and cv.last_pulse() else None})")


def profile_fall(tier):
    """Pulses followed by short delays / retargets on modulated channels whose custom
    phase-jump time is below twice the rise time (sequences ending inside a fall time)."""
    from props import c02

    def force(d):
        import copy

        d = copy.deepcopy(d)
        for i, c in enumerate(d["channels"]):
            c["custom_phase_jump_time"] = [0, 20, 40, 0][i % 4]
        return d

    p = c02.profile_fall(tier)
    return dict(p, device=p["device"].map(force))


@st.composite
def pair_cases(draw):
    ch = lambda: dict(bw=draw(st.sampled_from([2, 4, 8, 20, 40])),  # noqa: E731
                      eom=draw(st.sampled_from([None, 20, 40, 100])), in_eom=draw(st.booleans()),
                      d=draw(st.sampled_from([52, 100, 200, 400])), amp=draw(gen.fl(1.0, 10.0)),
                      shape=draw(st.sampled_from(["const", "blackman", "ramp_up"])))
    return dict(a=ch(), b=ch(), protocol=draw(st.sampled_from(["min-delay", "wait-for-all"])),
                local=draw(st.booleans()))


def check_pair(case, ctx: Ctx):
    """Two channels on the same atoms, one pulse each, the second added with a waiting protocol:
    when the second pulse starts, the output of the first is below the statement's bound."""
    from pulser import Pulse, Register, Sequence
    from pulser.channels import Rydberg
    from pulser.channels.eom import RydbergBeam, RydbergEOM
    from pulser.devices import VirtualDevice
    from pulser.sampler import sample
    from pulser.waveforms import BlackmanWaveform, ConstantWaveform, RampWaveform

    C = "C14.separated_pulses"

    def mk_ch(c):
        kw = {}
        if c["eom"]:
            kw["eom_config"] = RydbergEOM(
                limiting_beam=RydbergBeam.RED, max_limiting_amp=30 * 2 * math.pi,
                intermediate_detuning=450 * 2 * math.pi, mod_bandwidth=c["eom"],
                controlled_beams=(RydbergBeam.BLUE,))
        if case["local"]:
            return Rydberg.Local(None, None, mod_bandwidth=c["bw"], max_targets=2, **kw)
        return Rydberg.Global(None, None, mod_bandwidth=c["bw"], **kw)

    try:
        dev = VirtualDevice(name="pair", dimensions=2, rydberg_level=60,
                            channel_objects=(mk_ch(case["a"]), mk_ch(case["b"])))
    except Exception:  # noqa: BLE001 - constructability is C12's subject
        ctx.label("device_refused")
        return
    seq = Sequence(Register({"q0": (0.0, 0.0), "q1": (8.0, 0.0)}), dev)
    ids = list(dev.channels)
    tgt = dict(initial_target="q0") if case["local"] else {}
    seq.declare_channel("A", ids[0], **tgt)
    seq.declare_channel("B", ids[1], **tgt)

    def play(name, c, **kw):
        if c["in_eom"] and c["eom"]:
            seq.enable_eom_mode(name, c["amp"], 0.0)
            seq.add_eom_pulse(name, c["d"], 0.0, **kw)
            return "eom"
        if c["shape"] == "const":
            amp = ConstantWaveform(c["d"], c["amp"])
        elif c["shape"] == "blackman":
            amp = BlackmanWaveform(c["d"], c["amp"] * c["d"] * 0.42e-3)
        else:
            amp = RampWaveform(c["d"], 0.0, c["amp"])
        seq.add(Pulse.ConstantDetuning(amp, 0.0, 0.0), name, **kw)
        return "std"

    ka = ctx.must(lambda: play("A", case["a"]), C, "first pulse")
    kb = ctx.must(lambda: play("B", case["b"], protocol=case["protocol"]), C, "second pulse")
    ctx.label(f"first={ka}", f"second={kb}")
    ctx.nontrivial(ka != kb or case["a"]["bw"] != case["b"]["bw"])
    slot_b = [s for s in seq._schedule["B"].slots if isinstance(s.type, Pulse) and
              float(np.max(np.asarray(s.type.amplitude.samples.as_array()))) > 0][-1]
    mod = ctx.must(lambda: sample(seq, modulation=True), C, "sample(modulation=True)")
    a = np.asarray(mod.channel_samples["A"].amp.as_array(), dtype=float)
    peak = float(np.max(np.abs(a))) if a.size else 0.0
    tail = a[slot_b.ti:]
    thr = max(0.01, 0.006 * peak)
    if tail.size and float(np.max(np.abs(tail))) > thr * (1 + 1e-9):
        i = int(np.argmax(np.abs(tail)))
        ctx.fail(C, f"outputs_overlap:first={ka},second={kb}",
                 f"the {case['protocol']} pulse on B starts at t={slot_b.ti} while the output of A is still "
                 f"{tail[i]:.4g} rad/us at t={slot_b.ti + i} (bound {thr:.4g}; A: {case['a']}, B: {case['b']})")


def profile_eom(tier):
    """EOM-heavy programs on modulated channels (EOM bandwidths 20..100 MHz, default and custom
    buffer times down to 1 ns): the EOM blocks and their buffers are filtered separately."""
    p = profile(tier)
    return dict(p, min_ops=4, max_ops=16, min_channels=1,
                weights={"declare": 6, "declare_more": 1, "add": 6, "align": 1, "delay": 2,
                         "phase_shift": 1, "target": 1, "eom": 14},
                device=gen.device_specs(n_channels=(1, 2), allow_builtin=False, allow_dmm=False,
                                        chan_kw={"kind": "Rydberg", "eom": True, "bandwidth": [4, 8, 20, 40]}))


CLAUSES = [
    Clause("filter", check_filter, gen=lambda t: signal_cases(),
           budget={"quick": (8, 250), "thorough": (16, 12000)}),
    Clause("tone", check_tone, enum=enum_tone, budget={"quick": (4, 0), "thorough": (4, 0)},
           exhaustive=True, doc="pure tone at the bandwidth: gain 1/2"),
    Clause("fall_time", check_fall, gen=lambda t: fall_cases(),
           budget={"quick": (8, 150), "thorough": (16, 8000)}),
    Clause("sequence", check_seq, gen=lambda t: gen.programs(profile(t)),
           budget={"quick": (8, 80), "thorough": (16, 3000)}),
    Clause("sequence_ending_in_fall_time", check_seq, gen=lambda t: gen.programs(profile_fall(t)),
           budget={"quick": (8, 60), "thorough": (16, 1500)},
           doc="modulated sampling of sequences that end with short delays after a pulse"),
    Clause("separated_pulses", check_pair, gen=lambda t: pair_cases(),
           budget={"quick": (8, 60), "thorough": (16, 3000)},
           doc="two channels on the same atoms (own bandwidths, with/without EOM, in/out of EOM mode): a pulse "
               "added with min-delay / wait-for-all starts only when the other channel's output is below the bound"),
    Clause("sequence_eom", check_seq, gen=lambda t: gen.programs(profile_eom(t)),
           budget={"quick": (8, 40), "thorough": (16, 1500)},
           doc="modulated sampling of EOM-heavy sequences (every EOM bandwidth and buffer time of the generator)"),
]
