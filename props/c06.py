"""C06 - sampling renders the schedule exactly."""
from __future__ import annotations

import numpy as np
from hypothesis import strategies as st

from pv import gen, history, model_render as mr
from pv.engine import Clause, Ctx

RULE = (
    "Hypothesis-generated programs (Ising and XY devices; global/local/"
    "multi-target channels, retargets, DMM with non-uniform weights, EOM blocks "
    "with idle periods, SLM mask, several channels per basis) sampled with "
    "sample(); every nanosecond of every channel array and of the per-atom "
    "per-basis view (to_nested_dict, all_local True and False) is compared with "
    "the M4 reference renderer built from the slot list; extension to T, T+1, "
    "T+137. Non-trivial: >=1 retarget or multi-target local pulse, or a DMM "
    "with >=2 distinct atom weights, or an EOM idle period; distinct = "
    "distinct canonical JSON."
)
ASSUMPTIONS = [
    "Waveform.samples and the slot list define what is scheduled",
    "own nearest-trap lookup for DMM weights (atoms within 1e-6 um of a trap)",
    "where two non-zero-amplitude pulses act on one (atom, basis) at once the "
    "phase of the per-atom view is not compared (no documented formula)",
]


def profile(tier):
    dev = st.one_of(
        gen.device_specs(n_channels=(1, 4), allow_builtin=True,
                         chan_kw={"bandwidth": [None, None, 8, 40]}),
        gen.device_specs(n_channels=(1, 4), allow_builtin=True,
                         chan_kw={"bandwidth": [None, None, 8, 40]}),
        gen.device_specs(mode="xy", n_channels=(1, 2), allow_builtin=True,
                         chan_kw={"bandwidth": [None, None, 8]}),
    )
    return {
        "fault_pct": 3, "min_ops": 5, "max_ops": 30 if tier == "quick" else 50,
        "min_channels": 2, "measure": False, "magfield": True,
        "weights": {"declare": 7, "declare_more": 2, "add": 12, "align": 1,
                    "delay": 2, "phase_shift": 2, "target": 5, "eom": 4,
                    "add_dmm": 5, "detmap": 2, "slm": 2},
        "device": dev,
        "register": st.one_of(gen.register_specs(n=(1, 5)), gen.register_specs(n=(2, 5), tiny_noise=True)),
    }


def profile_xy(tier):
    """XY programs with an SLM mask on two global microwave channels, delays before the first pulses:
    the mask lasts until the end of the first pulse of the channel that starts first."""
    p = profile(tier)
    return dict(p, min_ops=6, max_ops=14, min_channels=2,
                weights={"declare": 7, "declare_more": 3, "add": 10, "align": 1, "delay": 8,
                         "phase_shift": 1, "target": 0, "eom": 0, "add_dmm": 0, "detmap": 0, "slm": 8},
                device=gen.device_specs(mode="xy", n_channels=(2, 2), allow_builtin=True,
                                        chan_kw={"bandwidth": [None, None, 8]}),
                register=gen.register_specs(n=(2, 5)))


def _a(x):
    return np.asarray(x.as_array(detach=True) if hasattr(x, "as_array") else x, dtype=float)


def _cmp(ctx, clause, disc, got, exp, what, tol=1e-9):
    got = _a(got)
    if got.shape != exp.shape:
        ctx.fail(clause, disc + ":length", f"{what}: length {got.shape} != {exp.shape}")
        return
    if got.size and not np.allclose(got, exp, rtol=0, atol=tol, equal_nan=True):
        i = int(np.argmax(np.abs(got - exp)))
        ctx.fail(clause, disc, f"{what}: at t={i} got {got[i]!r}, schedule says {exp[i]!r}")


def check(case, ctx: Ctx):
    from pulser.sampler import sample

    w = history.Walker(case, ctx, {"TARGETS"}).run()
    seq = w.seq
    if w.aborted:
        ctx.label("aborted_partial_effect(C09)")
        return
    if seq.is_parametrized() or not seq._schedule or seq.is_register_mappable():
        ctx.label("not_sampleable")
        return
    chans = mr.render(seq)
    sm = ctx.must(lambda: sample(seq), "C06.channel", "sample(seq)")
    nt = False
    # ---- (a) per channel
    for name, c in chans.items():
        cs = sm.channel_samples[name]
        dur = ctx.must(lambda: seq.get_duration(name), "C06.channel", "get_duration")
        if cs.duration != dur or dur != c.T:
            ctx.fail("C06.channel", "length", f"{name}: {cs.duration} vs duration {dur} / {c.T}")
        _cmp(ctx, "C06.channel", "amp", cs.amp, c.amp, f"{name}.amp", 1e-12)
        _cmp(ctx, "C06.channel", "det", cs.det, c.det, f"{name}.det", 1e-12)
        ph = _a(cs.phase)
        inside = ~np.isnan(c.phase)
        if inside.any() and not np.allclose(ph[inside], c.phase[inside], rtol=0, atol=1e-12):
            i = int(np.flatnonzero(inside)[np.argmax(np.abs(ph[inside] - c.phase[inside]))])
            ctx.fail("C06.channel", "phase_inside_pulse",
                     f"{name}: phase[{i}]={ph[i]} but the pulse there has phase {c.phase[i]}")
        # EOM idle periods: detuning == detuning_off
        for (bti, btf, doff) in c.blocks:
            hi = btf if btf is not None else c.T
            idle = np.ones(c.T, dtype=bool)
            idle[:bti] = False
            idle[hi:] = False
            for (ti, tf, tg, p, real) in c.pulses:
                if real:
                    idle[ti:tf] = False
            if idle.any():
                nt = True
                ctx.label("eom_idle")
                if not np.allclose(_a(cs.det)[idle], doff, rtol=0, atol=1e-12):
                    ctx.fail("C06.channel", "eom_idle_detuning",
                             f"{name}: detuning while idling in EOM mode != detuning_off {doff}")
        if c.addressing == "Local":
            tsets = [frozenset(p[2]) for p in c.pulses]
            if len(set(tsets)) >= 2 or any(len(t) >= 2 for t in tsets):
                nt = True
                ctx.label("retarget_or_multitarget")
        if c.is_dmm and len({round(v, 9) for v in c.weights.values()}) >= 2 and c.pulses:
            nt = True
            ctx.label("dmm_nonuniform")
    if seq._in_xy and seq._slm_mask_targets and sum(1 for c in chans.values() if c.pulses) >= 1:
        nt = True
        ctx.label("xy_slm_mask")
    ctx.nontrivial(nt)
    T = max([c.T for c in chans.values()] or [0])
    # ---- (b) extension only pads
    for X in (T, T + 1, T + 137):
        if X <= 0:
            continue
        ext = ctx.must(lambda: sample(seq, extended_duration=X), "C06.extend", "sample(extended)")
        for name, c in chans.items():
            cs = ext.channel_samples[name]
            pad = X - c.T
            det_pad = c.blocks[-1][2] if c.in_eom else 0.0
            _cmp(ctx, "C06.extend", "amp", cs.amp, np.concatenate([c.amp, np.zeros(pad)]), f"{name}.amp@{X}", 1e-12)
            _cmp(ctx, "C06.extend", "det", cs.det, np.concatenate([c.det, np.full(pad, det_pad)]), f"{name}.det@{X}", 1e-12)
            base = _a(sm.channel_samples[name].phase)
            last = base[-1] if base.size else 0.0
            _cmp(ctx, "C06.extend", "phase", cs.phase, np.concatenate([base, np.full(pad, last)]), f"{name}.phase@{X}", 1e-12)
    if T == 0:
        return
    # per-atom detuning in the padded tail of a channel that is still in EOM mode
    # is not defined by the statement (padding is not a pulse): not compared
    skip: dict = {}
    for c in chans.values():
        if c.in_eom and c.T < T:
            tg = c.slots[-1].targets if c.slots else set()
            for q in tg:
                m = skip.setdefault((c.basis, q), np.zeros(T, dtype=bool))
                m[c.T:] = True

    def det_cmp(disc, got, e, basis, q, what):
        m = skip.get((basis, q))
        g = _a(got).copy()
        x = e.copy()
        if m is not None and g.shape == x.shape:
            g[m] = 0.0
            x[m] = 0.0
        _cmp(ctx, "C06.atom", disc, g, x, what)

    # ---- (c) per atom, all_local=True
    exp = mr.per_atom(seq, chans, T)
    nd = ctx.must(lambda: sm.to_nested_dict(all_local=True), "C06.atom", "to_nested_dict(all_local)")
    for basis, atoms in exp.items():
        for q, e in atoms.items():
            got = nd["Local"].get(basis, {}).get(q)
            if got is None:
                if np.any(e["amp"]) or np.any(e["det"]):
                    ctx.fail("C06.atom", "missing_atom", f"{basis}/{q} absent from Local view")
                continue
            _cmp(ctx, "C06.atom", "amp:all_local", got["amp"], e["amp"], f"Local/{basis}/{q}/amp")
            det_cmp("det:all_local", got["det"], e["det"], basis, q, f"Local/{basis}/{q}/det")
            one = ~np.isnan(e["phase"])
            gp = _a(got["phase"])
            if one.any() and not np.allclose(gp[one], e["phase"][one], rtol=0, atol=1e-9):
                i = int(np.flatnonzero(one)[np.argmax(np.abs(gp[one] - e["phase"][one]))])
                # how many channels of this basis have a pulse slot (of any
                # amplitude) covering this atom at that time?
                # (the tree's slots extend over the pulse's fall time, <= 2 rise times)
                # (a channel left in EOM mode keeps "playing" on its last targets: its
                #  padded tail carries a held phase as well)
                cover = sum(
                    1 for c in chans.values() if c.basis == basis and (any(
                        ti <= i < tf + 2 * c.obj.rise_time + 1 and q in tg
                        for (ti, tf, tg, p, real) in c.pulses) or (
                        c.in_eom and i >= c.T and c.pulses and q in c.pulses[-1][2])))
                disc = ("phase:summed_over_channels_same_basis" if cover >= 2
                        else "phase:all_local")
                ctx.fail("C06.atom", disc,
                         f"Local/{basis}/{q}: phase[{i}]={gp[i]}, the only non-zero pulse acting "
                         f"has {e['phase'][i]} ({cover} channels of this basis cover the atom then)",
                         cont=True)
    # ---- (d) default view: Global term + Local term
    nd2 = ctx.must(lambda: sm.to_nested_dict(), "C06.atom", "to_nested_dict()")
    exp_g = mr.per_atom(seq, chans, T, classes=("Global",))
    masked = set(seq._slm_mask_targets) if seq._in_xy else set()
    for basis, atoms in exp.items():
        g = nd2["Global"].get(basis)
        n_glob = sum(1 for c in chans.values()
                     if c.basis == basis and c.addressing == "Global" and not c.is_dmm)
        for q, e in atoms.items():
            loc = nd2["Local"].get(basis, {}).get(q)
            tot_amp = np.zeros(T)
            tot_det = np.zeros(T)
            if g is not None and q not in masked:
                tot_amp += _a(g["amp"])
                tot_det += _a(g["det"])
            elif g is not None and q in masked:
                mend = mr.xy_mask_end(chans) or 0
                ga, gd = _a(g["amp"]).copy(), _a(g["det"]).copy()
                tot_amp += ga
                tot_det += gd
            if loc is not None:
                tot_amp += _a(loc["amp"])
                tot_det += _a(loc["det"])
            if masked and q not in masked and loc is not None and g is not None:
                # while the mask is on, the global pulses reach the unmasked atoms through their
                # Local entries: amplitude, detuning AND phase
                mend = mr.xy_mask_end(chans) or 0
                lp = _a(loc["phase"])
                one = ~np.isnan(e["phase"])
                one[mend:] = False
                if one.any() and not np.allclose(lp[one], e["phase"][one], rtol=0, atol=1e-9):
                    i = int(np.flatnonzero(one)[np.argmax(np.abs(lp[one] - e["phase"][one]))])
                    ctx.fail("C06.atom", "phase:summed_over_channels_same_basis" if n_glob >= 2
                             else "phase:local_term_under_mask",
                             f"Local/{basis}/{q} (default view, SLM mask on until {mend}): phase[{i}]={lp[i]}, the "
                             f"only pulse acting has {e['phase'][i]}", cont=True)
            _cmp(ctx, "C06.atom", "amp:default_view", tot_amp, e["amp"], f"{basis}/{q} Global+Local amp")
            det_cmp("det:default_view", tot_det, e["det"], basis, q, f"{basis}/{q} Global+Local det")
        if g is not None and exp_g.get(basis):
            unm = [q for q in exp_g[basis] if q not in masked]
            if unm:
                eg = exp_g[basis][unm[0]]
                gp = _a(g["phase"])
                one = ~np.isnan(eg["phase"])
                if masked:
                    mend = mr.xy_mask_end(chans) or 0
                    one[:mend] = False
                if one.any() and not np.allclose(gp[one], eg["phase"][one], rtol=0, atol=1e-9):
                    i = int(np.flatnonzero(one)[np.argmax(np.abs(gp[one] - eg["phase"][one]))])
                    disc = ("phase:summed_over_channels_same_basis"
                            if n_glob >= 2 else "phase:global_term")
                    ctx.fail("C06.atom", disc,
                             f"Global/{basis}: phase[{i}]={gp[i]}, the only global pulse acting "
                             f"there has phase {eg['phase'][i]} ({n_glob} global channels on this basis)",
                             cont=True)


CLAUSES = [
    Clause("render", check, gen=lambda t: gen.programs(profile(t)),
           budget={"quick": (16, 120), "thorough": (16, 5000)},
           doc="C06.channel / C06.extend / C06.atom against the M4 renderer"),
    Clause("render_xy_slm", check, gen=lambda t: gen.programs(profile_xy(t)),
           budget={"quick": (16, 30), "thorough": (16, 1000)},
           doc="the same for XY programs with an SLM mask and two global channels whose first pulses are delayed"),
]
