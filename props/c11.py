"""C11 - emulation keeps states physical and follows the measurement conventions."""
from __future__ import annotations

import math

import numpy as np
from hypothesis import strategies as st

from pv import gen, history
from pv.engine import Clause, Ctx

TWO_PI = 2 * math.pi
RULE = (
    "(states) Hypothesis-generated small sequences (1-3 atoms, every basis "
    "combination, idle prefixes/suffixes, sampling rates, evaluation-time "
    "settings Full/Minimal/float/lists incl. 0 and T) without noise and with "
    "generated dissipative noise: norm / trace / Hermiticity / positivity at "
    "every evaluation time. (rabi) generated resonant constant pulses on an "
    "isolated atom against sin^2(Omega t/2); zero drive leaves the initial "
    "state. (bitstrings) random kets and density matrices in every basis/"
    "dimension against own marginalisation; detection errors: exact corners "
    "and 7-sigma bands. (v2) QutipBackendV2 vs QutipEmulator on generated "
    "sequences and evaluation-time lists; every duration 4..3000 ns "
    "(exhaustive) must run on the V2 backend with its default evaluation "
    "time. Non-trivial: final state differs from the initial state by > 1e-3, "
    "or (v2) an evaluation-time list of length >= 2 or a duration T with "
    "T*1e-3 != T/1000 in floating point; distinct = distinct canonical JSON."
)
ASSUMPTIONS = [
    "QuTiP solvers with their default tolerances (rtol 1e-6): norm/trace/positivity/fidelity tolerance 1e-5 + 3e-6 per ns of sequence (local error control accumulates; measured 3.2e-4 at 819 ns), Rabi within 1e-2",
    "statistical clauses use a fixed numpy seed drawn by Hypothesis and 7-sigma bands "
    "(false-alarm probability < 1e-11 per assertion)",
]


def profile(tier):
    ck = {"bandwidth": [None], "simple_timing": True, "eom": False}
    dev = st.one_of(
        gen.device_specs(n_channels=(1, 3), allow_builtin=True, chan_kw=ck, allow_dmm=False),
        gen.device_specs(n_channels=(1, 3), allow_builtin=False, chan_kw=ck),
        gen.device_specs(mode="xy", n_channels=(1, 2), allow_builtin=True, chan_kw=ck),
    )
    return {
        "fault_pct": 0, "min_ops": 3, "max_ops": 10, "min_channels": 1, "measure": True,
        "stop_at_measure_p": 10, "magfield": True, "simple_pulses": True,
        "weights": {"declare": 7, "declare_more": 2, "add": 12, "align": 1, "delay": 3,
                    "phase_shift": 1, "target": 3, "add_dmm": 2, "detmap": 1, "slm": 1, "measure": 1},
        "device": dev,
        "register": gen.register_specs(n=(1, 3), layout=False, spacing=7.0),
    }


@st.composite
def noise_specs(draw):
    kind = draw(st.sampled_from(["none", "none", "dephasing", "relaxation", "depolarizing", "eff_noise", "mixed"]))
    if kind == "none":
        return {}
    if kind == "dephasing":
        return dict(dephasing_rate=draw(st.sampled_from([0.05, 1.0])), hyperfine_dephasing_rate=0.01)
    if kind == "relaxation":
        return dict(relaxation_rate=draw(st.sampled_from([0.01, 0.5])))
    if kind == "depolarizing":
        return dict(depolarizing_rate=draw(st.sampled_from([0.05, 0.8])))
    if kind == "eff_noise":
        return dict(eff_noise_rates=[draw(st.sampled_from([0.1, 1.0]))],
                    eff_noise_opers=[[[0.0, 1.0], [0.0, 0.0]]])
    return dict(dephasing_rate=0.2, relaxation_rate=0.1)


@st.composite
def state_cases(draw, tier):
    prog = draw(gen.programs(profile(tier)))
    ev = draw(st.sampled_from(["Full", "Minimal", 0.5, 0.1, "list", "list0T"]))
    return dict(prog=prog, eval=ev, frac=[draw(st.floats(0.0, 1.0)) for _ in range(3)],
                sampling_rate=draw(st.sampled_from([1.0, 1.0, 0.5, 0.2])),
                noise=draw(noise_specs()), seed=draw(st.integers(0, 2**31 - 1)))


def build_seq(prog, ctx):
    w = history.Walker(prog, ctx, set()).run()
    seq = w.seq
    if w.aborted or seq.is_parametrized() or not seq._schedule or seq.is_register_mappable():
        return None
    if any(not cs.slots for cs in seq._schedule.values()):
        return None
    dev_bases = {c.basis for c in seq.device.channels.values()}
    if any(cs.channel_obj.basis not in dev_bases for cs in seq._schedule.values()):
        return None
    T = seq.get_duration()
    if T < 8 or T > 4000:
        return None
    if seq.is_measured():
        # the emulator refuses a measurement basis that carries no pulse
        from pv import model_render as mr

        used = {c.basis for c in mr.render(seq).values() if np.any(c.amp) or np.any(c.det)}
        if not used:  # nothing driven: emulated in the default space
            used = {"XY" if seq._in_xy else "ground-rydberg"}
        if seq.get_measurement_basis() not in used:
            return None
    return seq


def solver_tol(T: int) -> float:
    """QuTiP's default integrator controls the *local* error (rtol 1e-6 per step) and the
    emulator takes at least one step per ns (max_step): the accumulated norm / fidelity
    error grows with the duration (measured: 3.2e-4 at 819 ns, 2e-5 at 300 ns)."""
    return min(1e-5 + 3e-6 * T, 1e-2)


def check_states(case, ctx: Ctx):
    from pulser_simulation import QutipEmulator, SimConfig

    C = "C11.states"
    seq = build_seq(case["prog"], ctx)
    if seq is None:
        ctx.label("not_emulable")
        return
    T = seq.get_duration()
    sr = case["sampling_rate"]
    if sr * T < 5:
        sr = 1.0
    ev = case["eval"]
    if ev == "list":
        ev = sorted({round(f * T / 1000, 6) for f in case["frac"]})
    elif ev == "list0T":
        ev = [0.0, T / 1000]
    noise = dict(case["noise"])
    in_xy = bool(seq._in_xy)
    if in_xy:
        noise.pop("relaxation_rate", None)
    cfg = None
    dissipative = bool(noise)
    if noise:
        from pulser.noise_model import NoiseModel

        try:
            cfg = SimConfig.from_noise_model(NoiseModel(**{
                k: (tuple(v) if isinstance(v, list) else v) for k, v in noise.items()}))
        except Exception:  # noqa: BLE001
            ctx.label("noise_refused")
            return
    np.random.seed(case["seed"] % (2**32))
    try:
        sim = QutipEmulator.from_sequence(seq, sampling_rate=sr, config=cfg, evaluation_times=ev)
    except (NotImplementedError, ValueError) as e:
        # documented refusals: unsupported noise for the basis (e.g. depolarizing in the
        # 3-level basis, eff_noise operator shape), relaxation without the Rydberg basis
        ctx.label("emulator_refused:" + type(e).__name__)
        return
    ctx.label("dissipative" if dissipative else "noiseless", sim.basis_name, f"eval={case['eval']}")
    res = ctx.must(lambda: sim.run(), C, "run")
    init = sim.initial_state
    final = None
    for r in res:
        s = r.state
        if s.isket:
            nrm = float(np.linalg.norm(s.full()))
            if abs(nrm - 1) > solver_tol(T):
                ctx.fail(C, "norm", f"t={r.evaluation_time}: |psi| = {nrm}")
            if dissipative:
                ctx.fail(C, "ket_with_dissipation", "")
        else:
            m = s.full()
            tr = np.trace(m)
            if abs(tr - 1) > solver_tol(T):
                ctx.fail(C, "trace", f"t={r.evaluation_time}: Tr rho = {tr}")
            if np.max(np.abs(m - m.conj().T)) > 1e-6:
                ctx.fail(C, "rho_not_hermitian", "")
            lam = np.linalg.eigvalsh((m + m.conj().T) / 2)
            if lam.min() < -solver_tol(T):
                ctx.fail(C, "rho_not_positive", f"t={r.evaluation_time}: lambda_min = {lam.min()}")
        final = s
    times = [r.evaluation_time for r in res]
    if times != sorted(times) or abs(times[0]) > 1e-12 or abs(times[-1] - 1) > 1e-9:
        ctx.fail(C, "evaluation_times", f"{times[:3]}...{times[-2:]}")
    # the final state the results hand out is the last state of the run (the one the V2 backend
    # stores at t=1), up to the global phase that get_final_state() removes
    if final is not None and hasattr(res, "get_final_state"):
        try:
            fs = res.get_final_state()
        except Exception:  # noqa: BLE001 - (e.g. results that only hold samples)
            fs = None
        if fs is not None and fs.shape == final.shape:
            a_, b_ = fs.full(), final.full()
            if final.isket:
                infid = 1 - abs(np.vdot(a_.ravel(), b_.ravel())) ** 2 / max(
                    np.vdot(a_.ravel(), a_.ravel()).real * np.vdot(b_.ravel(), b_.ravel()).real, 1e-300)
            else:
                infid = float(np.max(np.abs(a_ - b_)))
            if infid > 1e-9:
                ctx.fail(C, "get_final_state_is_not_the_last_state",
                         f"T={T} ns: get_final_state() differs from the last stored state (1-|<a|b>|^2 or max "
                         f"difference = {infid:.3e}); it equals the previous one: "
                         f"{len(res.states) >= 2 and np.allclose(np.abs(fs.full()), np.abs(res.states[-2].full()), atol=1e-9)}",
                         cont=True)
    if final is not None:
        a = final.full() if not final.isket else final.full() @ final.full().conj().T
        b = init.full() if not init.isket else init.full() @ init.full().conj().T
        ctx.nontrivial(float(np.max(np.abs(a - b))) > 1e-3)
    # sampling distribution sums to one and follows the bitstring conventions
    fin = res[-1]
    dist = fin.sampling_dist
    if abs(sum(dist.values()) - 1) > 1e-9 or any(v < -1e-12 for v in dist.values()):
        ctx.fail(C, "sampling_dist_sum", f"{sum(dist.values())}")
    if any(len(k) != len(seq.register.qubit_ids) for k in dist):
        ctx.fail(C, "bitstring_length", "")


# ------------------------------------------------------------------ rabi
@st.composite
def rabi_cases(draw):
    return dict(
        basis=draw(st.sampled_from(["ground-rydberg", "digital", "XY"])),
        omega=draw(st.sampled_from([1.0, math.pi, TWO_PI, 12.0]) | gen.fl(0.5, 12)),
        d=draw(st.sampled_from([52, 100, 300, 1000, 1337])),
        phase=draw(st.sampled_from([0.0, 1.0, math.pi, -2.0])),
        idle_before=draw(st.sampled_from([0, 16, 100, 3000])), idle_after=draw(st.sampled_from([0, 16, 100, 1000])),
        zero=draw(st.integers(0, 4)) == 0,
        spectator=draw(st.booleans()),
        sampling_rate=draw(st.sampled_from([1.0, 1.0, 0.5, 0.2, 0.1])),
    )


def check_rabi(case, ctx: Ctx):
    from pulser import Pulse, Register, Sequence
    from pulser.devices import MockDevice
    from pulser_simulation import QutipEmulator

    C = "C11.rabi"
    ch = {"ground-rydberg": "rydberg_local", "digital": "raman_local", "XY": "mw_global"}[case["basis"]]
    qs = {"q0": (0.0, 0.0)}
    if case["spectator"] and case["basis"] != "XY":
        qs["far"] = (0.0, 400.0)
    seq = Sequence(Register(qs), MockDevice)
    if ch == "mw_global":
        seq.declare_channel("ch", ch)
    else:
        seq.declare_channel("ch", ch, initial_target="q0")
    om = 0.0 if case["zero"] else case["omega"]
    if case["idle_before"]:
        seq.delay(case["idle_before"], "ch")
    seq.add(Pulse.ConstantPulse(case["d"], om, 0.0, case["phase"]), "ch")
    if case["idle_after"]:
        seq.delay(case["idle_after"], "ch")
    sr = case.get("sampling_rate", 1.0)
    sim = ctx.must(lambda: QutipEmulator.from_sequence(seq, sampling_rate=sr, evaluation_times="Full"),
                   C, "emulator")
    res = ctx.must(lambda: sim.run(), C, "run")
    ctx.nontrivial(not case["zero"])
    ctx.label(case["basis"], "zero_drive" if case["zero"] else "driven", f"sampling_rate={sr}")
    n = len(qs)
    T = seq.get_duration()
    states = sim.basis  # name -> ket
    names = list(states)
    exc = {"ground-rydberg": "r", "digital": "h", "XY": "d"}[case["basis"]]
    # (an undriven sequence is emulated in the default ground-rydberg space)
    ie = names.index(exc) if exc in names else None
    t0 = case["idle_before"]
    worst = 0.0
    for r in res:
        t = r.evaluation_time * T  # ns
        psi = r.state.full().reshape([len(names)] * n)
        p = float(np.sum(np.abs(np.take(psi, ie, axis=0)) ** 2)) if ie is not None else 0.0
        tt = min(max(t - t0, 0.0), case["d"]) * 1e-3
        expected = math.sin(om * tt / 2) ** 2
        worst = max(worst, abs(p - expected))
        if case["zero"]:
            if np.max(np.abs(r.state.full() - sim.initial_state.full())) > 1e-9:
                ctx.fail(C, "zero_drive_changes_state", f"t={t}")
    # a sub-sampled Hamiltonian smears the pulse edges over 1/sampling_rate ns: the
    # population may lag by Omega * (1/sr - 1) ns / 2 per edge (a skipped pulse is off by ~1)
    tol = 1e-2 + 1.5e-3 * om * (1 / sr - 1)
    if worst > tol:
        ctx.fail(C, f"rabi:{case['basis']}" + (":subsampled" if sr < 1 else ""),
                 f"max |P_exc - sin^2(Omega t/2)| = {worst:.4f} > {tol:.4f} (Omega={om}, d={case['d']}, "
                 f"idle {case['idle_before']}/{case['idle_after']} ns, sampling_rate={sr})")


# ------------------------------------------------------------------ bitstrings
@st.composite
def bit_cases(draw):
    basis = draw(st.sampled_from(["ground-rydberg", "digital", "XY", "all", "ground-rydberg_with_error"]))
    n = draw(st.integers(1, 3))
    return dict(basis=basis, n=n, meas=draw(st.sampled_from(["ground-rydberg", "digital"])),
                mixed=draw(st.booleans()), seed=draw(st.integers(0, 2**31 - 1)),
                eps=draw(st.sampled_from([0.0, 1.0, 0.0, 0.3, 0.05])),
                epsp=draw(st.sampled_from([0.0, 1.0, 0.0, 0.2, 0.5])),
                shots=draw(st.sampled_from([2000, 5000])))


def check_bits(case, ctx: Ctx):
    import qutip
    from pulser_simulation import QutipState
    from pulser_simulation.qutip_result import QutipResult

    C = "C11.bitstrings"
    eig = {"ground-rydberg": ["r", "g"], "digital": ["g", "h"], "XY": ["u", "d"],
           "all": ["r", "g", "h"], "ground-rydberg_with_error": ["r", "g", "x"]}[case["basis"]]
    n, dim = case["n"], len(eig)
    rs = np.random.RandomState(case["seed"] % (2**32))
    D = dim ** n
    v = rs.normal(size=D) + 1j * rs.normal(size=D)
    v /= np.linalg.norm(v)
    if case["mixed"]:
        w = rs.normal(size=D) + 1j * rs.normal(size=D)
        w /= np.linalg.norm(w)
        rho = 0.6 * np.outer(v, v.conj()) + 0.4 * np.outer(w, w.conj())
        q = qutip.Qobj(rho, dims=[[dim] * n, [dim] * n])
        probs = np.real(np.diag(rho))
    else:
        q = qutip.Qobj(v.reshape(-1, 1), dims=[[dim] * n, [1] * n])
        probs = np.abs(v) ** 2
    if case["basis"] == "XY":
        meas = "XY"
    elif case["basis"] in ("ground-rydberg", "ground-rydberg_with_error"):
        meas = "ground-rydberg"
    elif case["basis"] == "digital":
        meas = "digital"
    else:
        meas = case["meas"]
    one = {"ground-rydberg": "r", "digital": "h", "XY": "d"}[meas]
    # own marginalisation: one -> 1, everything else -> 0, atoms in order
    exp = {}
    for idx in range(D):
        digits = np.base_repr(idx, base=dim).zfill(n)
        bits = "".join("1" if eig[int(c)] == one else "0" for c in digits)
        exp[bits] = exp.get(bits, 0.0) + float(probs[idx])
    ctx.nontrivial(dim >= 3 or case["mixed"] or n >= 2)
    ctx.label(case["basis"], "mixed" if case["mixed"] else "pure", f"n={n}")
    ids = tuple(f"q{i}" for i in range(n))
    # the emulator's rule: the measurement basis "matches" when its name is part of the basis name
    res = QutipResult(ids, meas, q, meas in case["basis"])
    dist = ctx.must(lambda: dict(res.sampling_dist), C, "sampling_dist")
    for b in set(exp) | set(dist):
        if abs(exp.get(b, 0.0) - dist.get(b, 0.0)) > 1e-9:
            ctx.fail(C, f"QutipResult.sampling_dist:{case['basis']}",
                     f"P({b}) = {dist.get(b, 0.0)} vs {exp.get(b, 0.0)} (meas {meas})")
    stt = QutipState(q, eigenstates=eig)
    bp = ctx.must(lambda: dict(stt.bitstring_probabilities(one_state=one)), C, "bitstring_probabilities")
    for b in set(exp) | set(bp):
        if abs(exp.get(b, 0.0) - bp.get(b, 0.0)) > 1e-9 and max(exp.get(b, 0.0), bp.get(b, 0.0)) > 1e-11:
            ctx.fail(C, f"QutipState.bitstring_probabilities:{case['basis']}",
                     f"P({b}) = {bp.get(b, 0.0)} vs {exp.get(b, 0.0)}")
    # detection errors: P'(bit=1) per atom = p1(1-eps') + (1-p1) eps
    eps, epsp, shots = case["eps"], case["epsp"], case["shots"]
    np.random.seed(case["seed"] % (2**32))
    cnt = ctx.must(lambda: stt.sample(num_shots=shots, one_state=one, p_false_pos=eps, p_false_neg=epsp),
                   C, "QutipState.sample")
    if sum(cnt.values()) != shots:
        ctx.fail(C, "sample_count", f"{sum(cnt.values())} != {shots}")
    for i in range(n):
        p1 = sum(p for b, p in exp.items() if b[i] == "1")
        pe = p1 * (1 - epsp) + (1 - p1) * eps
        got = sum(c for b, c in cnt.items() if b[i] == "1") / shots
        sig = math.sqrt(max(pe * (1 - pe), 1e-12) / shots)
        if pe in (0.0, 1.0):
            if abs(got - pe) > 1e-12 and min(p1, 1 - p1) < 1e-15:
                ctx.fail(C, "detection_error:corner", f"atom {i}: {got} vs {pe}")
        elif abs(got - pe) > 7 * sig + 1e-3:  # 1e-3: the sampler's probability cutoff 1/(1000 shots)
            ctx.fail(C, "detection_error:rate",
                     f"atom {i}: measured {got:.4f}, expected {pe:.4f} +- {sig:.4f} (eps={eps}, eps'={epsp})")
    if eps == 0 and epsp == 0:
        for b in cnt:
            if exp.get(b, 0.0) <= 0:
                ctx.fail(C, "sample_outside_support", b)
    # joint distribution: detection errors flip each bit independently
    from props.c20 import joint_with_errors

    jd = joint_with_errors(exp, eps, epsp)
    for b in set(jd) | set(cnt):
        pj = jd.get(b, 0.0)
        g = cnt.get(b, 0) / shots
        sig = math.sqrt(max(pj * (1 - pj), 1e-12) / shots)
        if abs(g - pj) > 7 * sig + 3e-3:
            ctx.fail(C, "detection_error:joint_distribution",
                     f"P({b}) sampled {g:.4f}, expected {pj:.4f} (eps={eps}, eps'={epsp})")


# ------------------------------------------------------------------ SPAM (legacy emulator + V2)
@st.composite
def spam_cases(draw):
    return dict(
        n=draw(st.integers(1, 3)),
        theta=draw(st.sampled_from([math.pi, math.pi / 2, TWO_PI, 2.0]) | gen.fl(0.3, 6.0)),
        d=draw(st.sampled_from([52, 100, 200])),
        eta=draw(st.sampled_from([0.0, 0.0, 0.1, 0.3, 0.6])),
        eps=draw(st.sampled_from([0.0, 0.0, 0.05, 0.25])),
        epsp=draw(st.sampled_from([0.0, 0.0, 0.1, 0.25])),
        runs=draw(st.sampled_from([200, 400])), spr=draw(st.sampled_from([5, 10])),
        seed=draw(st.integers(0, 2**31 - 1)),
        deph=draw(st.sampled_from([0.0, 0.0, 0.2, 1.0])),
    )


def check_spam(case, ctx: Ctx):
    """State-preparation and detection errors of the SPAM model on isolated atoms:
    P(bit_i = 1) = q (1 - eps') + (1 - q) eps with q = (1 - eta) sin^2(theta / 2)."""
    from pulser import Pulse, Register, Sequence
    from pulser.backend import StateResult
    from pulser.devices import MockDevice
    from pulser.noise_model import NoiseModel
    from pulser_simulation import QutipBackendV2, QutipConfig, QutipEmulator, SimConfig

    C = "C11.spam"
    n, eta, eps, epsp = case["n"], case["eta"], case["eps"], case["epsp"]
    R, S = case["runs"], case["spr"]
    seq = Sequence(Register({f"q{i}": (70.0 * i, 0.0) for i in range(n)}), MockDevice)
    seq.declare_channel("ch", "rydberg_global")
    seq.add(Pulse.ConstantPulse(case["d"], case["theta"] / (case["d"] * 1e-3), 0.0, 0.0), "ch")
    # baseline: the emulator's own noiseless final population (the Rabi clause checks it
    # against sin^2(theta/2); the pulse edges cost up to ~1 ns of area)
    clean = ctx.must(lambda: QutipEmulator.from_sequence(seq).run().get_final_state(), C, "noiseless run")
    pexc = float(np.sum(np.abs(np.take(clean.full().reshape([2] * n), 0, axis=0)) ** 2))
    if abs(pexc - math.sin(case["theta"] / 2) ** 2) > 0.05:
        ctx.fail(C, "noiseless_population", f"{pexc} vs {math.sin(case['theta'] / 2) ** 2}")
    q = (1 - eta) * pexc
    pe = q * (1 - epsp) + (1 - q) * eps
    ctx.nontrivial(eta > 0 or (eps > 0) != (epsp > 0))
    ctx.label("prep_errors" if eta > 0 else "no_prep_errors",
              "one_sided_detection" if (eps > 0) != (epsp > 0) else
              ("detection" if eps > 0 else "no_detection"))
    if eta == 0 and eps == 0 and epsp == 0:
        nm = NoiseModel()
    else:
        nm = NoiseModel(state_prep_error=eta, p_false_pos=eps, p_false_neg=epsp, runs=R, samples_per_run=S)
    np.random.seed(case["seed"] % (2**32))
    sim = ctx.must(lambda: QutipEmulator.from_sequence(seq, config=SimConfig.from_noise_model(nm)), C, "emulator")
    res = ctx.must(lambda: sim.run(), C, "run")
    if eta > 0:
        shots = R * S
        cnt = ctx.must(lambda: res.sample_final_state(shots), C, "NoisyResults.sample_final_state")
        # between-run variance of the preparation + sampling variance
        p_good = pexc * (1 - epsp) + (1 - pexc) * eps
        var = pe * (1 - pe) / shots + eta * (1 - eta) * (p_good - eps) ** 2 / R
        # NoisyResults re-samples its stored distribution: one more sampling layer
        var += pe * (1 - pe) / shots
    else:
        shots = 20000
        cnt = ctx.must(lambda: res.sample_final_state(shots), C, "CoherentResults.sample_final_state")
        var = pe * (1 - pe) / shots
    tot = sum(cnt.values())
    if tot != shots:
        ctx.fail(C, "shot_count", f"{tot} != {shots}")
    for i in range(n):
        got = sum(c for b, c in cnt.items() if b[i] == "1") / tot
        if abs(got - pe) > 7 * math.sqrt(var) + 2e-3:
            ctx.fail(C, "legacy:rate_of_ones" + (":prep" if eta > 0 else ":detection"),
                     f"atom {i}: P(1) measured {got:.4f}, expected {pe:.4f} "
                     f"(eta={eta}, eps={eps}, eps'={epsp}, sin^2={pexc:.4f}, runs={R}x{S})")
    if eta == 0 and (eps or epsp):
        # expect() applies the same detection errors through the pseudo-density
        import qutip

        proj = qutip.tensor([qutip.basis(2, 0).proj()] + [qutip.qeye(2)] * (n - 1))
        e = float(np.real(ctx.must(lambda: res.expect([proj]), C, "expect")[0][-1]))
        if abs(e - pe) > 1e-4:
            ctx.fail(C, "legacy:expect_with_detection_errors", f"<n_0> = {e} vs {pe}")
    # V2 backend: averaged density matrix over the preparation configurations, without and
    # with a dissipative channel (the solver then returns density matrices per configuration)
    if eta > 0:
        deph = case.get("deph", 0.0)
        extra = {"dephasing_rate": deph} if deph else {}
        p_ref, q_ref = pexc, q
        if deph:
            ctx.label("prep_errors+dephasing")
            dm = ctx.must(lambda: QutipEmulator.from_sequence(seq, config=SimConfig.from_noise_model(
                NoiseModel(dephasing_rate=deph))).run().get_final_state(), C, "dephasing-only run")
            dd = np.real(np.diag(dm.full())).reshape([2] * n)
            p_ref = float(np.sum(np.take(dd, 0, axis=0)))
            q_ref = (1 - eta) * p_ref
        np.random.seed(case["seed"] % (2**32))
        cfg = QutipConfig(observables=[StateResult()], noise_model=NoiseModel(
            state_prep_error=eta, p_false_pos=eps, p_false_neg=epsp, runs=R, samples_per_run=S, **extra))
        r2 = ctx.must(lambda: QutipBackendV2(seq, config=cfg).run(), C, "V2 run with SPAM")
        rho = r2.state[-1].to_qobj()
        m = rho.full()
        if m.shape[1] == 1:
            m = m @ m.conj().T
        if abs(np.trace(m) - 1) > solver_tol(case["d"]):
            ctx.fail(C, "v2:trace" + (":dissipative" if deph else ""),
                     f"Tr rho = {np.trace(m).real:.6f} (eta={eta}, dephasing {deph}, runs={R})")
        if np.max(np.abs(m - m.conj().T)) > 1e-9 or np.linalg.eigvalsh((m + m.conj().T) / 2).min() < -solver_tol(case["d"]):
            ctx.fail(C, "v2:not_a_state", "")
        diag = np.real(np.diag(m)).reshape([2] * n)
        for i in range(n):
            pr = float(np.sum(np.take(diag, 0, axis=i)))  # index 0 = r
            sd = math.sqrt(eta * (1 - eta) / R) * p_ref
            if abs(pr - q_ref) > 7 * sd + 2e-3:
                ctx.fail(C, "v2:rydberg_population_with_prep_errors",
                         f"atom {i}: <n> = {pr:.4f}, expected {q_ref:.4f} (eta={eta}, dephasing {deph}, runs={R})")


# ------------------------------------------------------------------ V2 vs legacy
def profile_mod(tier):
    """Channels with a finite modulation bandwidth: with `with_modulation` the emulated duration
    includes the fall time of the last pulse, and relative evaluation times refer to it."""
    ck = {"bandwidth": [4, 8, 20], "simple_timing": True, "eom": False}
    p = profile(tier)
    return dict(p, max_ops=7, weights=dict(p["weights"], slm=0, add_dmm=0, detmap=0),
                device=st.one_of(
                    gen.device_specs(n_channels=(1, 2), allow_builtin=False, chan_kw=ck, allow_dmm=False),
                    gen.device_specs(mode="xy", n_channels=(1, 1), allow_builtin=False, chan_kw=ck)))


@st.composite
def v2_cases(draw, tier, modulation=False):
    if modulation:
        prog = draw(gen.programs(profile_mod(tier)))
        k = draw(st.integers(2, 4))
        fr = sorted({round(draw(st.floats(0.0, 1.0)), 3) for _ in range(k)})
        return dict(prog=prog, eval=draw(st.sampled_from(["list", "list", "single", "default"])), fracs=fr,
                    sampling_rate=1.0, modulation=True)
    prog = draw(gen.programs(profile(tier)))
    ev = draw(st.sampled_from(["default", "Full", "list", "list", "single"]))
    k = draw(st.integers(2, 4))
    fr = sorted({round(draw(st.floats(0.0, 1.0)), 3) for _ in range(k)})
    return dict(prog=prog, eval=ev, fracs=fr, sampling_rate=draw(st.sampled_from([1.0, 1.0, 0.5])))


def check_v2(case, ctx: Ctx):
    from pulser.backend import StateResult
    from pulser_simulation import QutipBackendV2, QutipConfig, QutipEmulator

    C = "C11.v2"
    seq = build_seq(case["prog"], ctx)
    if seq is None:
        ctx.label("not_emulable")
        return
    T = seq.get_duration()
    mod = bool(case.get("modulation"))
    mkw = {}
    if mod:
        mkw = dict(with_modulation=True)
        try:
            QutipEmulator.from_sequence(seq, with_modulation=True)
        except Exception:  # noqa: BLE001 - combination the emulator does not support
            ctx.label("modulation_not_supported_here")
            return
        # the emulated duration includes the fall time of the last pulses
        T_plain, T = T, seq.get_duration(include_fall_time=True)
        ctx.label("longer_with_modulation" if T > T_plain else "same_duration_with_modulation")
        if T > 4500:
            return
    sr = case["sampling_rate"] if case["sampling_rate"] * T >= 5 else 1.0
    kw = dict(observables=[StateResult()], sampling_rate=sr, **mkw)
    ev = case["eval"]
    if ev == "Full":
        kw["default_evaluation_times"] = "Full"
    elif ev == "list":
        kw["default_evaluation_times"] = case["fracs"]
    elif ev == "single":
        kw["default_evaluation_times"] = case["fracs"][:1]
    if mod:
        ctx.nontrivial(T > T_plain and ev in ("list", "single"))
    else:
        ctx.nontrivial(ev == "list" and len(case["fracs"]) >= 2 or (1.0 * T * 1e-3 != T / 1000))
    ctx.label(f"eval={ev}", "inexact_T" if 1.0 * T * 1e-3 != T / 1000 else "exact_T")
    cfg = ctx.must(lambda: QutipConfig(**kw), C, "QutipConfig")
    try:
        be = QutipBackendV2(seq, config=cfg)
        res = be.run()
    except Exception as e:  # noqa: BLE001
        from pv.engine import exc_disc

        ctx.fail(C, f"v2_run:{exc_disc(e)}:{'list' if ev in ('list', 'single') else ev}",
                 f"QutipBackendV2 failed for T={T} ns, evaluation times {kw.get('default_evaluation_times', 'default')}: "
                 f"{type(e).__name__}: {str(e)[:200]}", cont=True)
        return
    try:
        times = res.get_result_times("state")
    except ValueError:
        ctx.fail(C, "no_state_stored",
                 f"T={T} ns, evaluation times {kw.get('default_evaluation_times', 'default')}: the run stored "
                 f"no state at all (tags {res.get_result_tags()})")
        return
    if times != sorted(times):
        ctx.fail(C, "times_not_ascending", f"{times}")
    want = None
    if ev in ("list", "single"):
        want = sorted(set(kw["default_evaluation_times"]))
    elif ev == "default":
        want = [1.0]
    if want is not None:
        got = [t for t in times]
        tol = 0.5 / T + 1e-9  # the backend's documented matching tolerance: half a ns
        if any(min(abs(a - b) for b in got) > tol for a in want) or \
                any(min(abs(a - b) for b in want) > tol for a in got):
            ctx.fail(C, "evaluation_times", f"requested {want}, stored {got} (T={T})")
    # legacy emulator at the same (absolute) times
    abs_t = [t * T / 1000 for t in times]
    sim = ctx.must(lambda: QutipEmulator.from_sequence(
        seq, sampling_rate=sr, evaluation_times=[min(x, T / 1000) for x in abs_t], **mkw), C, "legacy emulator")
    leg = ctx.must(lambda: sim.run(), C, "legacy run")
    for t, st_ in zip(times, res.state):
        a = st_.to_qobj().full().reshape(-1)
        b = leg.get_state(min(t * T / 1000, T / 1000), t_tol=1e-7).full().reshape(-1)
        if a.shape != b.shape:
            ctx.fail(C, "state_shape", f"{a.shape} vs {b.shape}")
        fid = abs(np.vdot(a, b)) ** 2 / max(np.vdot(a, a).real * np.vdot(b, b).real, 1e-300)
        if fid < 1 - solver_tol(T):  # the same solver on both sides, normalised states
            ctx.fail(C, "states_differ", f"t={t}: fidelity {fid}")
        if list(st_.eigenstates) != list(sim.basis):
            ctx.fail(C, "eigenstates", f"{st_.eigenstates} vs {list(sim.basis)}")
    # at the REQUESTED times: the legacy emulator given exactly t*T/1000 us builds the same
    # time list as the backend, so the solver runs are identical and the states agree to
    # solver noise (measured 3e-9; 1e-6 allowed); a backend evaluating at a shifted time differs by ~Omega*dt/2
    if want is not None:
        req_abs = [f * T / 1000 for f in want]
        sim2 = ctx.must(lambda: QutipEmulator.from_sequence(seq, sampling_rate=sr, evaluation_times=req_abs, **mkw),
                        C, "legacy emulator at requested times")
        leg2 = ctx.must(lambda: sim2.run(), C, "legacy run at requested times")
        for f, ta in zip(want, req_abs):
            cands = [(abs(t - f), t, st_) for t, st_ in zip(times, res.state)]
            dmin, tv, st_ = min(cands, key=lambda x: x[0])
            if dmin > 0.5 / T + 1e-9:
                continue  # (missing time: reported above)
            a = st_.to_qobj().full().reshape(-1)
            b = leg2.get_state(ta, t_tol=1e-9).full().reshape(-1)
            if a.shape == b.shape:
                # (get_state() removes a global phase: align it before comparing)
                a = a * np.exp(-1j * np.angle(np.vdot(b, a)))
            if a.shape == b.shape and np.max(np.abs(a - b)) > 1e-6:
                ctx.fail(C, "state_at_requested_time",
                         f"requested t={f} (T={T} ns): V2 stored t={tv}, max amplitude difference with the legacy "
                         f"state at {ta} us = {np.max(np.abs(a - b)):.3e}")


@st.composite
def leak_cases(draw):
    return dict(n=draw(st.integers(1, 2)), d=draw(st.sampled_from([100, 300, 500])),
                amp=draw(gen.fl(1.0, 8.0)), rate=draw(st.sampled_from([0.5, 2.0])),
                src=draw(st.sampled_from(["r", "g"])), deph=draw(st.sampled_from([0.0, 0.5])),
                idle_first=draw(st.booleans()),
                eps=draw(st.sampled_from([0.0, 0.1])), epsp=draw(st.sampled_from([0.0, 0.3])))


def check_leak(case, ctx: Ctx):
    """A noise model with a leakage state (|x>, fed by an effective-noise operator): the bit of an
    atom found in |x> is 0, and the V2 backend gives the same state as the legacy emulator."""
    import qutip
    from pulser import Pulse, Register, Sequence
    from pulser.backend import StateResult
    from pulser.devices import MockDevice
    from pulser.noise_model import NoiseModel
    from pulser_simulation import QutipBackendV2, QutipConfig, QutipEmulator, SimConfig

    C = "C11.leakage"
    n = case["n"]
    seq = Sequence(Register({f"q{i}": (i * 20.0, 0.0) for i in range(n)}), MockDevice)
    seq.declare_channel("ch", "rydberg_global")
    seq.add(Pulse.ConstantPulse(case["d"], case["amp"], 0.0, 0.0), "ch")
    idx = {"r": 0, "g": 1, "x": 2}
    op = (qutip.basis(3, 2) * qutip.basis(3, idx[case["src"]]).dag()).full()
    kw = dict(eff_noise_rates=(case["rate"],), eff_noise_opers=(op,), with_leakage=True)
    if case["deph"]:
        kw["dephasing_rate"] = case["deph"]
    nm = ctx.must(lambda: NoiseModel(**kw), C, "NoiseModel with leakage")
    if case.get("idle_first"):
        # the same noise model on a sequence that drives nothing (no basis addressed), first
        idle = Sequence(Register({f"q{i}": (i * 20.0, 0.0) for i in range(n)}), MockDevice)
        idle.declare_channel("ch", "rydberg_global")
        idle.delay(100, "ch")
        ctx.must(lambda: QutipEmulator.from_sequence(idle, config=SimConfig.from_noise_model(nm)), C,
                 "legacy emulator on an idle sequence")
        ctx.label("idle_sequence_with_leakage_first")
    # emulating one configuration does not change the emulation of another: without noise the
    # atoms have two levels
    plain = ctx.must(lambda: QutipEmulator.from_sequence(seq), C, "noiseless emulator")
    if plain.dim != 2 or list(plain._hamiltonian.eigenbasis) != ["r", "g"]:
        ctx.fail(C, "leakage_state_persists_in_later_emulations",
                 f"a noiseless emulator built after one with a leakage noise model has {plain.dim} levels per atom "
                 f"({plain._hamiltonian.eigenbasis})")
    sim = ctx.must(lambda: QutipEmulator.from_sequence(seq, config=SimConfig.from_noise_model(nm),
                                                       evaluation_times="Minimal"), C, "legacy emulator")
    leg = ctx.must(lambda: sim.run(), C, "legacy run")
    rho = leg.get_final_state().full()
    pops = np.real(np.diag(rho))
    ctx.nontrivial(True)
    # legacy bitstring distribution: only |r> counts as 1, per atom, register order
    w = np.zeros(2 ** n)
    for bits_, p_ in list(leg)[-1].sampling_dist.items():
        w[int(bits_, 2)] = p_
    exp = np.zeros(2 ** n)
    for k, pk in enumerate(pops):
        digits = [(k // 3 ** (n - 1 - i)) % 3 for i in range(n)]
        bits = "".join("1" if dg == 0 else "0" for dg in digits)
        exp[int(bits, 2)] += pk
    exp = exp / exp.sum()
    if w.shape != exp.shape or np.max(np.abs(w - exp)) > 1e-9:
        ctx.fail(C, "legacy:bit_of_leaked_atom",
                 f"populations (r,g,x per atom, register order) {np.round(pops, 4).tolist()}: bitstring weights "
                 f"{np.round(w, 4).tolist()}, expected {np.round(exp, 4).tolist()}")
    # detection errors on top: expect() of "atom 0 reads 1" follows eps (1 - p_r) + (1 - eps') p_r
    if case.get("eps") or case.get("epsp"):
        eps, epsp = case.get("eps", 0.0), case.get("epsp", 0.0)
        nm2 = NoiseModel(p_false_pos=eps, p_false_neg=epsp, **kw)
        sim2 = ctx.must(lambda: QutipEmulator.from_sequence(seq, config=SimConfig.from_noise_model(nm2),
                                                            evaluation_times="Minimal"), C, "legacy emulator (SPAM)")
        leg2 = ctx.must(lambda: sim2.run(), C, "legacy run (SPAM)")
        if hasattr(leg2, "expect") and type(leg2).__name__ == "CoherentResults":
            # (with detection errors expect() works on the post-measurement two-level picture, the
            #  state read as 1 first, as in the ground-rydberg convention)
            proj1 = qutip.basis(2, 0) * qutip.basis(2, 0).dag()
            got = float(np.real(leg2.expect([qutip.tensor([proj1] + [qutip.qeye(2)] * (n - 1))])[0][-1]))
            proj_r = qutip.basis(3, 0) * qutip.basis(3, 0).dag()
            op0 = qutip.tensor([proj_r] + [qutip.qeye(3)] * (n - 1))
            rho2 = leg2.states[-1]
            rho2 = rho2 if rho2.isoper else rho2 * rho2.dag()
            p_r = float(np.real((op0 * rho2).tr()))
            want = eps * (1 - p_r) + (1 - epsp) * p_r
            ctx.label("leakage_with_detection_errors")
            if abs(got - want) > 1e-6:
                ctx.fail(C, "legacy:expect_with_detection_errors",
                         f"eps={eps}, eps'={epsp}, P(r) of atom 0 = {p_r:.4f}: expect() gives {got:.4f}, "
                         f"eps (1 - p) + (1 - eps') p = {want:.4f}")
    # the V2 backend on the same configuration
    try:
        res = QutipBackendV2(seq, config=QutipConfig(noise_model=nm, observables=[StateResult()])).run()
        st_ = res.state[-1]
    except Exception as e:  # noqa: BLE001
        ctx.fail(C, f"v2_run:with_leakage:{type(e).__name__}",
                 f"the legacy emulator runs this configuration, QutipBackendV2 raises {type(e).__name__}: {str(e)[:200]}",
                 cont=True)
        return
    b = st_.to_qobj().full()
    if b.shape != rho.shape or np.max(np.abs(b / np.trace(b) - rho / np.trace(rho))) > 1e-5:
        ctx.fail(C, "v2_state_differs:with_leakage", f"max difference {np.max(np.abs(b - rho)) if b.shape == rho.shape else 'shape'}")
    if tuple(st_.eigenstates) != ("r", "g", "x"):
        ctx.fail(C, "v2_eigenstates:with_leakage", f"{st_.eigenstates}")


@st.composite
def order_cases(draw):
    n = draw(st.integers(2, 3))
    labels = draw(st.sampled_from([list(range(n)), list(range(n))[::-1], ["b", "a", "c"][:n], [2, 0, 1][:n] if n == 3 else [1, 0],
                                   [11, 1, 12][:n]]))
    if draw(st.booleans()):
        labels = list(draw(st.permutations(labels)))
    return dict(labels=labels, target=draw(st.integers(0, n - 1)), basis=draw(st.sampled_from(["ground-rydberg", "digital"])))


def check_order(case, ctx: Ctx):
    """A pi pulse on ONE atom through a local channel: the bit that reads 1 is at that atom's
    position in the register (legacy sampling distribution and V2 BitStrings)."""
    from pulser import Pulse, Register, Sequence
    from pulser.backend import BitStrings
    from pulser.devices import MockDevice
    from pulser_simulation import QutipBackendV2, QutipConfig, QutipEmulator

    C = "C11.bitstrings"
    labels = case["labels"]
    n = len(labels)
    reg = Register({lab: (40.0 * i, 0.0) for i, lab in enumerate(labels)})
    seq = Sequence(reg, MockDevice)
    tgt = labels[case["target"]]
    seq.declare_channel("loc", "rydberg_local" if case["basis"] == "ground-rydberg" else "raman_local",
                        initial_target=[tgt])
    seq.add(Pulse.ConstantPulse(500, 2 * math.pi, 0.0, 0.0), "loc")  # area pi
    want = "".join("1" if i == case["target"] else "0" for i in range(n))
    ctx.nontrivial(any(isinstance(x, int) for x in labels) and labels != list(range(n)))
    ctx.label("int_labels" if isinstance(labels[0], int) else "str_labels")
    leg = ctx.must(lambda: QutipEmulator.from_sequence(seq).run(), C, "legacy run")
    dist = list(leg)[-1].sampling_dist
    best = max(dist, key=dist.get)
    if best != want or dist[best] < 0.99:
        ctx.fail(C, "register_order:legacy", f"labels {labels}, pi pulse on {tgt!r} (position {case['target']}): "
                                           f"sampling distribution {dict(dist)}, expected {want}")
    res = ctx.must(lambda: QutipBackendV2(seq, config=QutipConfig(observables=[BitStrings(num_shots=200)])).run(),
                   C, "V2 run")
    cnt = dict(res.bitstrings[-1])
    bestv = max(cnt, key=cnt.get)
    if str(bestv) != want:
        ctx.fail(C, "register_order:v2", f"labels {labels}, pi pulse on {tgt!r}: counts {cnt}, expected {want}")


@st.composite
def devnoise_cases(draw):
    return dict(eps=draw(st.sampled_from([0.0, 0.1, 0.3])), epsp=draw(st.sampled_from([0.0, 0.2, 0.5])),
                excited=draw(st.booleans()), via=draw(st.sampled_from(["device", "device", "config"])),
                shots=2000, seed=draw(st.integers(0, 2**31 - 1)))


def check_devnoise(case, ctx: Ctx):
    """Detection errors configured through the device's default noise model
    (prefer_device_noise_model=True) flip bits at those rates, as they do when the same noise
    model is given in the configuration."""
    import dataclasses

    from pulser import Pulse, Register, Sequence
    from pulser.backend import BitStrings
    from pulser.devices import AnalogDevice
    from pulser.noise_model import NoiseModel
    from pulser_simulation import QutipBackendV2, QutipConfig

    C = "C11.spam"
    eps, epsp = case["eps"], case["epsp"]
    if not (eps or epsp):
        return
    nm = NoiseModel(p_false_pos=eps, p_false_neg=epsp)
    dev = dataclasses.replace(AnalogDevice, default_noise_model=nm)
    seq = Sequence(Register({"q0": (0.0, 0.0)}), dev)
    seq.declare_channel("ch", "rydberg_global")
    if case["excited"]:
        seq.add(Pulse.ConstantPulse(1000, math.pi, 0.0, 0.0), "ch")  # pi pulse: the atom ends in r
    else:
        seq.delay(100, "ch")
    kw = dict(prefer_device_noise_model=True) if case["via"] == "device" else dict(noise_model=nm)
    np.random.seed(case["seed"] % (2**32))
    res = ctx.must(lambda: QutipBackendV2(seq, config=QutipConfig(
        observables=[BitStrings(num_shots=case["shots"])], **kw)).run(), C, "V2 run")
    counts = dict(res.bitstrings[-1])
    n1 = sum(v for k, v in counts.items() if str(k) == "1")
    N = sum(counts.values())
    p1 = (1 - epsp) if case["excited"] else eps  # a pi pulse of 1000 ns: P(r) = 1 to 1e-6
    sig = math.sqrt(max(p1 * (1 - p1), 1e-4) / N)
    ctx.nontrivial(True)
    ctx.label(f"via={case['via']}")
    if abs(n1 / N - p1) > 7 * sig + 2e-3:
        ctx.fail(C, f"v2:detection_errors_of_{case['via']}_noise_model_not_applied" if abs(n1 / N - (1.0 if case["excited"] else 0.0)) < 1e-9
                 else f"v2:rate_of_ones:{case['via']}",
                 f"p_false_pos={eps}, p_false_neg={epsp}, atom in {'r' if case['excited'] else 'g'}: {n1}/{N} ones, "
                 f"expected rate {p1} (noise model given through the {case['via']})", cont=True)


def enum_durations(tier):
    step = 1
    for lo in range(4, 3001, 250):
        yield dict(lo=lo, hi=min(lo + 250, 3001), step=step)


def check_durations(case, ctx: Ctx):
    """Every duration lo..hi: the V2 backend must run with its default evaluation time."""
    from pulser import Pulse, Register, Sequence
    from pulser.backend import Occupation
    from pulser.devices import MockDevice
    from pulser_simulation import QutipBackendV2, QutipConfig

    C = "C11.v2"
    n = 0
    nt = 0
    bad = []
    for T in range(case["lo"], case["hi"], case["step"]):
        n += 1
        inexact = (1.0 * T * 1e-3 != T / 1000)
        nt += inexact
        seq = Sequence(Register({"q0": (0.0, 0.0)}), MockDevice)
        seq.declare_channel("ch", "rydberg_global")
        seq.add(Pulse.ConstantPulse(T, 1.0, 0.0, 0.0), "ch")
        try:
            be = QutipBackendV2(seq, config=QutipConfig(observables=[Occupation()]))
            if T % 50 == 4 or inexact and T < 120:
                r = be.run()
                occ = r.occupation[-1][0]
                if abs(occ - math.sin(T * 1e-3 / 2) ** 2) > 1e-2:
                    ctx.fail(C, "occupation_value", f"T={T}: {occ}")
        except Exception as e:  # noqa: BLE001
            bad.append((T, f"{type(e).__name__}: {str(e)[:80]}"))
    ctx.bulk(n, nt)
    ctx.nontrivial(True)
    if bad:
        ctx.fail(C, "v2_default_evaluation_time:duration_float_conversion",
                 f"QutipBackendV2 (default evaluation time) fails for {len(bad)} of {n} durations "
                 f"in [{case['lo']},{case['hi']}): e.g. {bad[:3]}", cont=True)


CLAUSES = [
    Clause("states", check_states, gen=lambda t: state_cases(t),
           budget={"quick": (16, 8), "thorough": (16, 300)}),
    Clause("rabi", check_rabi, gen=lambda t: rabi_cases(),
           budget={"quick": (8, 10), "thorough": (16, 150)}),
    Clause("bitstrings", check_bits, gen=lambda t: bit_cases(),
           budget={"quick": (4, 100), "thorough": (16, 3000)}),
    Clause("spam", check_spam, gen=lambda t: spam_cases(),
           budget={"quick": (8, 6), "thorough": (16, 120)},
           doc="state-preparation + detection errors through the legacy emulator and the V2 backend"),
    Clause("v2", check_v2, gen=lambda t: v2_cases(t),
           budget={"quick": (16, 6), "thorough": (16, 250)}),
    Clause("v2_modulation", check_v2, gen=lambda t: v2_cases(t, modulation=True),
           budget={"quick": (16, 8), "thorough": (16, 120)},
           doc="V2 backend with output modulation: relative evaluation times refer to the duration "
               "including the fall time; states agree with the legacy emulator at those times"),
    Clause("register_order", check_order, gen=lambda t: order_cases(),
           budget={"quick": (4, 8), "thorough": (16, 40)},
           doc="a pi pulse on one atom (labels: strings, integers in and out of order): the 1 is at that atom's "
               "register position, legacy and V2"),
    Clause("device_noise_model", check_devnoise, gen=lambda t: devnoise_cases(),
           budget={"quick": (4, 6), "thorough": (16, 30)},
           doc="detection errors given through the device's default noise model (prefer_device_noise_model) "
               "or through the configuration: bits flip at the configured rates on the V2 backend"),
    Clause("leakage", check_leak, gen=lambda t: leak_cases(),
           budget={"quick": (4, 6), "thorough": (16, 40)},
           doc="noise model with a leakage state: a leaked atom reads 0 (legacy), and the V2 backend gives the "
               "legacy emulator's state"),
    Clause("v2_durations", check_durations, enum=enum_durations,
           budget={"quick": (12, 0), "thorough": (12, 0)}, exhaustive=True,
           doc="every duration 4..3000 ns on the V2 backend with default evaluation times"),
]
