"""C02 - channel timelines are gap-free, non-overlapping and clock-aligned."""
from __future__ import annotations

from pv import gen, history
from pv.engine import Clause, Ctx

RULE = (
    "Hypothesis-generated programs (device spec, register spec, 2..40 op records "
    "interpreted one API call each, ~10% deliberately invalid calls) on generated "
    "channel configurations (clock, min/max duration, bandwidth, retarget times, "
    "EOM, DMM); M1 timeline invariants after EVERY step, including after refused "
    "calls. Non-trivial: >=2 declared channels and >=1 automatically inserted "
    "delay or non-zero retarget (rounding/min-duration logic acted); distinct = "
    "distinct canonical JSON of the program."
)
ASSUMPTIONS = [
    "the per-channel slot list (seq._schedule) is the record of the schedule; "
    "C06 ties samples to it",
    "Pulse.fall_time is taken as given here (judged by C14)",
]


def profile(tier):
    return {
        "frac_delays": True,"fault_pct": 10, "max_ops": 40 if tier == "quick" else 60, "min_ops": 3}


def profile_fall(tier):
    """Modulated channels, pulses followed by runs of short delays and retargets: the
    duration 'including the pending fall time' after several trailing non-pulse slots."""
    return {"fault_pct": 2, "min_ops": 6, "max_ops": 26, "min_channels": 1, "max_channels": 2,
            "measure": False, "slm": False, "dmm": False,
            "weights": {"declare": 6, "declare_more": 1, "add": 8, "align": 1, "delay": 12,
                        "phase_shift": 0, "target": 3, "eom": 0},
            "device": gen.device_specs(n_channels=(1, 2), allow_builtin=False, allow_dmm=False,
                                       chan_kw={"bandwidth": [2, 4, 8, 8], "eom": False})}


def check(case, ctx: Ctx):
    w = history.Walker(case, ctx, {"C02"}).run()
    if not w.aborted:
        w.check_c02_final()
    else:
        ctx.label("aborted_partial_effect(C09)")
    st = w.stats
    nch = len(w.seq._schedule)
    ctx.nontrivial(nch >= 2 and st["auto_delay"] >= 1)
    ctx.label(f"channels={min(nch, 4)}")
    if st["auto_delay"]:
        ctx.label("auto_delay")
    if st["raised"]:
        ctx.label("has_refused_call")
    if any(cs.eom_blocks for cs in w.seq._schedule.values()):
        ctx.label("eom")
    if any(n.startswith("dmm_") for n in w.seq._schedule):
        ctx.label("dmm")


CLAUSES = [
    Clause("timeline", check, gen=lambda t: gen.programs(profile(t)),
           budget={"quick": (16, 60), "thorough": (16, 4000)},
           doc="M1 invariants after every step + sample()/str() views at the end"),
    Clause("fall_time_durations", check, gen=lambda t: gen.programs(profile_fall(t)),
           budget={"quick": (8, 80), "thorough": (16, 2500)},
           doc="modulated channels: pulses followed by runs of short delays / retargets"),
]
