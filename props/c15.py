"""C15 - EOM mode: square pulses, physical off-detuning, buffers, drift correction."""
from __future__ import annotations

import math

import numpy as np
from hypothesis import strategies as st

from pv import gen, history
from pv.engine import Clause, Ctx

TWO_PI = 2 * math.pi
RULE = (
    "(schedule) Hypothesis-generated histories on channels with generated EOM "
    "configurations (limiting beam, controlled beams, multiple-beam control, "
    "shift coefficients, custom buffer, bandwidths) interleaving enable / "
    "modify / add_eom_pulse / delay / disable (+- drift correction) with "
    "ordinary pulses: every EOM pulse equals the latest setpoint, idle "
    "detuning equals the off-detuning, the off-detuning is recomputed with the "
    "harness' own light-shift arithmetic and must be the allowed option closest "
    "to the request, buffers have the configured length and start after the "
    "previous pulse ramped down. (drift) generated EOM sequences with phase-drift "
    "correction everywhere vs a twin built on an EOM-free channel with the same "
    "pulse slots, programmed phases and zero detuning between pulses: final "
    "populations from QutipEmulator agree within 5e-4 (1-2 atoms; without the correction they differ by 3e-3..3e-1). Non-trivial: "
    "|det_off| > 0.1 and >= 2 EOM pulses separated by a delay; distinct = "
    "distinct canonical JSON."
)
ASSUMPTIONS = [
    "light-shift formulas of the RydbergEOM documentation (Omega = O_r O_b/(2 Delta), "
    "ls = (c_b O_b^2 - c_r O_r^2)/(4 Delta), limiting-beam cap)",
    "Pulse.fall_time as primitive (C14); QuTiP solver with tolerances 1e-10 (drift clause)",
]


def profile(tier):
    return {
        "fault_pct": 2, "min_ops": 5, "max_ops": 30 if tier == "quick" else 50,
        "min_channels": 1, "max_channels": 2, "measure": False, "slm": False, "dmm": False,
        "weights": {"declare": 6, "declare_more": 1, "add": 6, "align": 1, "delay": 2,
                    "phase_shift": 1, "target": 2, "eom": 16},
        "device": gen.device_specs(n_channels=(1, 2), allow_builtin=True, allow_dmm=False,
                                   chan_kw={"kind": "Rydberg", "eom": True,
                                            "bandwidth": [4, 8, 8, 20, 40]}),
        "register": gen.register_specs(n=(1, 3), layout=False),
    }


def check_sched(case, ctx: Ctx):
    w = history.Walker(case, ctx, {"C15"}).run()
    st_ = w.stats
    big_off = any(abs(float(np.asarray(b.detuning_off.as_array()).reshape(-1)[0])) > 0.1
                  for cs in w.seq._schedule.values() for b in cs.eom_blocks)
    ctx.nontrivial(big_off and st_.get("eom_pulses", 0) >= 2 and st_.get("eom_idle", 0) >= 1)
    if st_.get("det_off_choice"):
        ctx.label("several_off_options")
    if st_["eom"]:
        ctx.label("eom_enabled")
    if w.aborted:
        ctx.label("aborted_partial_effect(C09)")
        return
    # a channel left in EOM mode keeps idling at the off-detuning of its LATEST setpoint for as
    # long as the sequence (or an extension of it) lasts - in every sampled view
    seq = w.seq
    if seq.is_parametrized() or not seq._schedule:
        return
    from pulser.sampler import sample

    left = {n: cs for n, cs in seq._schedule.items() if cs.eom_blocks and cs.eom_blocks[-1].tf is None}
    if not left:
        return
    T = seq.get_duration()
    try:
        ext = sample(seq, extended_duration=T + 37)
    except Exception as e:  # noqa: BLE001
        ctx.fail("C15.det_off", f"sample_extended:{type(e).__name__}", str(e)[:200])
        return
    for n, cs in left.items():
        offs = [float(np.asarray(b.detuning_off.as_array()).reshape(-1)[0]) for b in cs.eom_blocks]
        end = cs.get_duration()
        det = np.asarray(ext.channel_samples[n].det.as_array(), dtype=float)
        tail = det[end:]
        if len(offs) >= 2 and abs(offs[0] - offs[-1]) > 1e-9:
            ctx.label("left_in_eom_mode_after_setpoint_change")
        if tail.size and np.max(np.abs(tail - offs[-1])) > 1e-9:
            ctx.fail("C15.det_off", "idle_tail_not_at_latest_off_detuning",
                     f"{n}: extended samples after t={end} hold detuning {sorted(set(np.round(tail, 6)))[:3]}, "
                     f"latest off-detuning {offs[-1]} (all blocks: {offs})")


# ------------------------------------------------------------------ drift correction
@st.composite
def drift_cases(draw):
    n_atoms = draw(st.sampled_from([1, 1, 2]))
    eom = dict(limiting_beam=draw(st.sampled_from(["RED", "BLUE"])),
               max_limiting_amp=draw(st.sampled_from([30 * TWO_PI, 40 * TWO_PI])),
               intermediate_detuning=draw(st.sampled_from([450 * TWO_PI, 700 * TWO_PI])),
               controlled_beams=draw(st.sampled_from([["BLUE"], ["RED"], ["BLUE", "RED"]])),
               mod_bandwidth=40)
    if draw(st.booleans()):
        eom["custom_buffer_time"] = draw(st.sampled_from([240, 100]))
    steps = []
    for _ in range(draw(st.integers(2, 5))):
        k = draw(st.sampled_from(["pulse", "pulse", "delay", "modify"]))
        if k == "pulse":
            steps.append(dict(k="pulse", d=draw(st.sampled_from([20, 52, 100, 200])),
                              phase=draw(st.sampled_from([0.0, 1.0, math.pi / 2, -0.7])),
                              # a shift of the reference the user asks for: it must survive the
                              # correction (later pulses are rotated by it on both sides)
                              pps=draw(st.sampled_from([0.0, 0.0, 1.1, -0.6, math.pi / 2]))))
        elif k == "delay":
            steps.append(dict(k="delay", d=draw(st.sampled_from([16, 100, 400]))))
        else:
            steps.append(dict(k="modify", amp_on=draw(st.sampled_from([3.0, 6.0, 9.0])),
                              det_on=0.0, opt_off=draw(st.sampled_from([0.0, -5.0, 10.0]))))
    return dict(n_atoms=n_atoms, eom=eom, amp_on=draw(st.sampled_from([2.0, 5.0, 8.0, 12.0])),
                opt_off=draw(st.sampled_from([0.0, -10.0, 5.0, 30.0])),
                pre_pulse=draw(st.booleans()), steps=steps, disable=draw(st.booleans()),
                spacing=draw(st.sampled_from([6.0, 9.0])),
                # channel timing grid: automatically inserted delays are rounded up to it
                clock=draw(st.sampled_from([1, 4, 4])), min_duration=draw(st.sampled_from([1, 16])),
                bw=draw(st.sampled_from([8, 9, 11, 19])))  # odd rise times: buffers off the clock grid


def check_drift(case, ctx: Ctx):
    from pulser import Pulse, Register, Sequence
    from pulser.channels import Rydberg
    from pulser.channels.eom import RydbergBeam, RydbergEOM
    from pulser.devices import VirtualDevice
    from pulser_simulation import QutipEmulator, SimConfig

    C = "C15.drift_correction"
    if not (case["pre_pulse"] or case["disable"] or any(s["k"] == "pulse" for s in case["steps"])):
        ctx.label("no_pulse_at_all")  # the twin would be empty: nothing to emulate
        return
    e = case["eom"]
    beams = {"RED": RydbergBeam.RED, "BLUE": RydbergBeam.BLUE}
    eom = RydbergEOM(limiting_beam=beams[e["limiting_beam"]], max_limiting_amp=e["max_limiting_amp"],
                     intermediate_detuning=e["intermediate_detuning"],
                     controlled_beams=tuple(beams[b] for b in e["controlled_beams"]),
                     mod_bandwidth=e["mod_bandwidth"], custom_buffer_time=e.get("custom_buffer_time"))
    dev_a = VirtualDevice(name="A", dimensions=2, rydberg_level=60, channel_objects=(
        Rydberg.Global(None, None, mod_bandwidth=case.get("bw", 8), eom_config=eom,
                       clock_period=case.get("clock", 1), min_duration=case.get("min_duration", 1)),))
    dev_b = VirtualDevice(name="B", dimensions=2, rydberg_level=60, channel_objects=(
        Rydberg.Global(None, None),))
    reg = Register({f"q{i}": (i * case["spacing"], 0.0) for i in range(case["n_atoms"])})

    def build_a():
        seq = Sequence(reg, dev_a)
        seq.declare_channel("ch", "rydberg_global")
        if case["pre_pulse"]:
            seq.add(Pulse.ConstantPulse(100, 4.0, 0.0, 0.3), "ch")
        seq.enable_eom_mode("ch", case["amp_on"], 0.0, case["opt_off"], correct_phase_drift=True)
        for s in case["steps"]:
            if s["k"] == "pulse":
                seq.add_eom_pulse("ch", s["d"], s["phase"], post_phase_shift=s.get("pps", 0.0),
                                  correct_phase_drift=True)
            elif s["k"] == "delay":
                seq.delay(s["d"], "ch")
            else:
                seq.modify_eom_setpoint("ch", s["amp_on"], s["det_on"], s["opt_off"],
                                        correct_phase_drift=True)
        if case["disable"]:
            seq.disable_eom_mode("ch", correct_phase_drift=True)
            seq.add(Pulse.ConstantPulse(52, 3.0, 0.0, 0.2), "ch")
        return seq

    try:
        sa = build_a()
    except Exception:  # noqa: BLE001 - e.g. setpoint outside the channel's reach
        ctx.label("sequence_refused")
        return
    cs = sa._schedule["ch"]
    offs = [float(np.asarray(b.detuning_off.as_array()).reshape(-1)[0]) for b in cs.eom_blocks]
    n_p = sum(1 for s in case["steps"] if s["k"] == "pulse")
    ctx.nontrivial(max(abs(x) for x in offs) > 0.1 and n_p >= 2)
    ctx.label(f"atoms={case['n_atoms']}")
    # twin: same pulse slots, user-programmed phases, zero detuning in between
    from pv.history import is_detuned_delay

    sb = Sequence(reg, dev_b)
    sb.declare_channel("ch", "rydberg_global")
    user_phases = []
    if case["pre_pulse"]:
        user_phases.append((0.3, 0.0))
    user_phases += [(s["phase"], s.get("pps", 0.0)) for s in case["steps"] if s["k"] == "pulse"]
    if case["disable"]:
        user_phases.append((0.2, 0.0))
    if any(p[1] for p in user_phases[:-1]):
        ctx.label("post_phase_shift_before_later_pulse")
    k = 0
    t = 0
    for s in cs.slots:
        if isinstance(s.type, Pulse) and not is_detuned_delay(s.type):
            if s.ti > t:
                sb.delay(s.ti - t, "ch")
            amp = float(s.type.amplitude.samples.as_array()[0])
            det = float(s.type.detuning.samples.as_array()[0])
            sb.add(Pulse.ConstantPulse(s.tf - s.ti, amp, det, user_phases[k][0],
                                       post_phase_shift=user_phases[k][1]), "ch", protocol="no-delay")
            k += 1
            t = s.tf
    T = sa.get_duration()
    if T > t:
        sb.delay(T - t, "ch")
    if k != len(user_phases):
        ctx.fail(C, "harness:pulse_count", f"{k} vs {len(user_phases)}")
    cfg = SimConfig(solver_options=dict(atol=1e-10, rtol=1e-10, nsteps=100000))
    pops = []
    for s_ in (sa, sb):
        sim = ctx.must(lambda: QutipEmulator.from_sequence(s_, config=cfg, evaluation_times="Minimal"),
                       C, "emulator")
        res = ctx.must(lambda: sim.run(), C, "run")
        psi = res.get_final_state().full().reshape(-1)
        pops.append(np.abs(psi) ** 2)
    err = float(np.max(np.abs(pops[0] - pops[1])))
    if err > 5e-4:  # the emulator interpolates the 1 ns samples (cubic), measured <= 1.2e-4
        ctx.fail(C, "populations_differ",
                 f"max population difference {err:.3g} between the drift-corrected EOM sequence and its "
                 f"zero-off-detuning twin (off-detunings {offs})")


CLAUSES = [
    Clause("schedule", check_sched, gen=lambda t: gen.programs(profile(t)),
           budget={"quick": (12, 150), "thorough": (16, 5000)},
           doc="C15.square / C15.det_off / C15.buffer per step"),
    Clause("drift", check_drift, gen=lambda t: drift_cases(),
           budget={"quick": (8, 10), "thorough": (16, 250)},
           doc="phase-drift correction == zero off-detuning (emulated populations)"),
]
