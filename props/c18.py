"""C18 - switching device or register preserves the program."""
from __future__ import annotations

import copy
import math

import numpy as np
from hypothesis import strategies as st

from pv import build, gen, history, snapshot as snap
from pv.engine import Clause, Ctx
from props import c08

TWO_PI = 2 * math.pi
RULE = (
    "Hypothesis-generated programs (rebuilt from their successful calls) on a "
    "generated device A, and a device B derived from A by mutating any subset of "
    "channel parameters (clock, min/max duration, bandwidth, phase-jump time, "
    "retarget times, max targets, EOM configuration incl. buffer and bandwidth, "
    "amplitude/detuning limits, channel order/ids, reusability, Rydberg level, "
    "extra/missing channels), strict in {True, False}; registers with the same "
    "ids and moved atoms for switch_register. Oracles: strict -> raises or "
    "identical per-channel timeline and samples at every ns; non-strict -> "
    "raises or the result satisfies the C01 limits and C02 timeline invariants "
    "on B; switch_register -> identical timeline. Non-trivial: B differs from A "
    "in >=1 timing-relevant parameter and the program has >=1 automatically "
    "inserted delay; distinct = distinct canonical JSON."
)
ASSUMPTIONS = ["C01/C02 oracles (pv.history) judge the switched sequence"]

TIMING = ("clock_period", "min_duration", "mod_bandwidth", "custom_phase_jump_time",
          "min_retarget_interval", "fixed_retarget_t", "eom")


def profile(tier):
    return {
        "fault_pct": 2, "min_ops": 4, "max_ops": 20 if tier == "quick" else 30,
        "min_channels": 1, "measure": True, "stop_at_measure_p": 9,
        "weights": {"declare": 6, "declare_more": 2, "add": 12, "align": 2, "delay": 3,
                    "phase_shift": 2, "target": 5, "eom": 5, "add_dmm": 2, "detmap": 1,
                    "slm": 1, "measure": 1},
        "device": gen.device_specs(n_channels=(1, 3), allow_builtin=False,
                                   chan_kw={"bandwidth": [None, 4, 8, 8, 40]}),
        "register": gen.register_specs(n=(1, 4), layout=False),
    }


def profile_dmm(tier):
    """DMM-heavy programs: detuning maps, DMM pulses and aligns that size delays on the DMM."""
    p = profile(tier)
    return dict(p, weights={"declare": 6, "declare_more": 1, "add": 8, "align": 7, "delay": 2,
                            "phase_shift": 1, "target": 1, "eom": 0, "add_dmm": 7, "detmap": 5,
                            "slm": 1, "measure": 0},
                device=gen.device_specs(n_channels=(1, 2), allow_builtin=False, n_dmm=(1, 2),
                                        chan_kw={"bandwidth": [None, 8], "eom": False}))


def profile_retarget(tier):
    """Local channels with frequent retargets: the retarget times are what matters."""
    p = profile(tier)
    return dict(p, weights={"declare": 6, "declare_more": 2, "add": 10, "align": 1, "delay": 2,
                            "phase_shift": 1, "target": 9, "eom": 0, "add_dmm": 0, "detmap": 0,
                            "slm": 0, "measure": 0},
                device=gen.device_specs(n_channels=(1, 2), allow_builtin=False, allow_dmm=False,
                                        chan_kw={"addr": "Local", "bandwidth": [None, 8], "eom": False}),
                register=gen.register_specs(n=(2, 4), layout=False))


def profile_eom(tier):
    """EOM-heavy programs: the EOM configuration is what matters."""
    p = profile(tier)
    return dict(p, weights={"declare": 6, "declare_more": 1, "add": 6, "align": 1, "delay": 2,
                            "phase_shift": 1, "target": 1, "eom": 14, "add_dmm": 0, "detmap": 0,
                            "slm": 0, "measure": 0},
                device=gen.device_specs(n_channels=(1, 2), allow_builtin=False, allow_dmm=False,
                                        chan_kw={"kind": "Rydberg", "eom": True, "bandwidth": [8, 40]}))


@st.composite
def mutate_eom(draw, c):
    """Only parameters of the EOM configuration change (those that move the off-detuning
    or the light shifts but not the timeline, and the others)."""
    c = copy.deepcopy(c)
    if not c.get("eom"):
        return c
    e = c["eom"]
    for m in draw(st.lists(st.sampled_from(["idet", "idet", "max_amp", "max_amp", "beams", "coeff", "bw", "buffer",
                                            "ch_bw"]),
                           min_size=1, max_size=2, unique=True)):
        if m == "idet":
            e["intermediate_detuning"] = e["intermediate_detuning"] * draw(st.sampled_from([1.5, 0.5, 2.0]))
        elif m == "max_amp":
            e["max_limiting_amp"] = e["max_limiting_amp"] * draw(st.sampled_from([1.5, 0.5]))
        elif m == "beams":
            e["controlled_beams"] = draw(st.sampled_from([["BLUE"], ["RED"], ["BLUE", "RED"]]))
        elif m == "coeff":
            e["blue_shift_coeff"] = draw(st.sampled_from([1.1, 0.8, 2.0]))
        elif m == "bw":
            e["mod_bandwidth"] = draw(st.sampled_from([20, 40, 100]))
        elif m == "buffer":
            e["custom_buffer_time"] = draw(st.sampled_from([240, 100]))
        elif m == "ch_bw" and c.get("mod_bandwidth"):
            # the channel's own bandwidth (pulses outside EOM blocks, default buffers, output)
            # (another value altogether, or one so close that the whole-ns rise time is the same)
            c["mod_bandwidth"] = draw(st.sampled_from([x for x in (4, 8, 20, 40) if x != c["mod_bandwidth"]]
                                                      + [c["mod_bandwidth"] * 0.93, c["mod_bandwidth"] * 0.93]))
    return c


@st.composite
def mutate_channel(draw, c):
    c = copy.deepcopy(c)
    muts = draw(st.lists(st.sampled_from([
        "clock", "min_duration", "max_duration", "bandwidth", "pjt", "mri", "frt",
        "max_targets", "eom_buffer", "eom_bw", "eom_beams", "eom_drop", "max_amp", "max_det",
        "min_avg_amp", "eom_idet", "eom_max_amp"]), min_size=0, max_size=3, unique=True))
    for m in muts:
        if m == "clock":
            c["clock_period"] = draw(st.sampled_from([1, 2, 4, 8]))
        elif m == "min_duration":
            c["min_duration"] = draw(st.sampled_from([1, 4, 16, 20, 100]))
            if c.get("max_duration") is not None:
                c["max_duration"] = max(c["max_duration"], c["min_duration"])
        elif m == "max_duration":
            c["max_duration"] = draw(st.sampled_from([2**26, 5000, 400]))
            c["max_duration"] = max(c["max_duration"], c.get("min_duration", 1))
        elif m == "bandwidth":
            bw = draw(st.sampled_from([None, 4, 8, 20, 40, "near"]))
            if bw == "near":
                bw = c["mod_bandwidth"] * 0.93 if c.get("mod_bandwidth") else None
            if bw is None:
                c.pop("mod_bandwidth", None)
                c.pop("eom", None)
            else:
                c["mod_bandwidth"] = bw
        elif m == "pjt":
            v = draw(st.sampled_from([None, 0, 20, 300]))
            if v is None:
                c.pop("custom_phase_jump_time", None)
            else:
                c["custom_phase_jump_time"] = v
        elif m == "mri" and c["addr"] == "Local":
            c["min_retarget_interval"] = draw(st.sampled_from([0, 50, 220]))
        elif m == "frt" and c["addr"] == "Local":
            c["fixed_retarget_t"] = draw(st.sampled_from([0, 10, 100]))
        elif m == "max_targets" and c["addr"] == "Local":
            c["max_targets"] = draw(st.sampled_from([1, 2, 5]))
        elif m == "eom_buffer" and c.get("eom"):
            v = draw(st.sampled_from([None, 240, 100]))
            if v is None:
                c["eom"].pop("custom_buffer_time", None)
            else:
                c["eom"]["custom_buffer_time"] = v
        elif m == "eom_bw" and c.get("eom"):
            c["eom"]["mod_bandwidth"] = draw(st.sampled_from([20, 40, 100]))
        elif m == "eom_beams" and c.get("eom"):
            c["eom"]["controlled_beams"] = draw(st.sampled_from([["BLUE"], ["RED"], ["BLUE", "RED"]]))
        elif m == "eom_drop":
            c.pop("eom", None)
        elif m == "eom_idet" and c.get("eom"):
            c["eom"]["intermediate_detuning"] = c["eom"]["intermediate_detuning"] * draw(st.sampled_from([1.5, 0.5]))
        elif m == "eom_max_amp" and c.get("eom"):
            c["eom"]["max_limiting_amp"] = c["eom"]["max_limiting_amp"] * draw(st.sampled_from([1.5, 0.5]))
        elif m == "max_amp":
            c["max_amp"] = draw(st.sampled_from([5.0, TWO_PI * 2, 15.0, 100.0]))
        elif m == "max_det":
            c["max_abs_detuning"] = draw(st.sampled_from([20.0, TWO_PI * 20, 500.0]))
        elif m == "min_avg_amp":
            c["min_avg_amp"] = draw(st.sampled_from([0, 0.5]))
    return c


@st.composite
def mutate_dmm(draw, d):
    d = copy.deepcopy(d)
    for m in draw(st.lists(st.sampled_from(["clock", "min_duration", "min_duration", "max_duration",
                                            "bandwidth", "bottom"]),
                           min_size=0, max_size=2, unique=True)):
        if m == "clock":
            d["clock_period"] = draw(st.sampled_from([1, 2, 4, 8]))
        elif m == "min_duration":
            # (large values: most automatically sized delays become shorter than the minimum)
            d["min_duration"] = draw(st.sampled_from([1, 4, 16, 20, 100, 400]))
            if d.get("max_duration") is not None:
                d["max_duration"] = max(d["max_duration"], d["min_duration"])
        elif m == "max_duration":
            d["max_duration"] = max(draw(st.sampled_from([2**26, 5000])), d.get("min_duration", 1))
        elif m == "bandwidth":
            bw = draw(st.sampled_from([None, 4, 8, 20]))
            if bw is None:
                d.pop("mod_bandwidth", None)
            else:
                d["mod_bandwidth"] = bw
        elif m == "bottom" and d.get("bottom_detuning") is not None:
            d["bottom_detuning"] = d["bottom_detuning"] * draw(st.sampled_from([0.5, 2.0]))
            if d.get("total_bottom_detuning") is not None and d["bottom_detuning"] < d["total_bottom_detuning"]:
                d["total_bottom_detuning"] = d["bottom_detuning"] * 3
    return d


@st.composite
def eom_block_cases(draw, tier):
    """One EOM channel used from t=0: a first block of back-to-back EOM pulses (no buffer before it,
    no idle time in it), then a setpoint change or a second block, then more pulses; the other device
    differs in its EOM configuration only. Strict."""
    dev = draw(gen.device_specs(n_channels=(1, 1), allow_builtin=False, allow_dmm=False,
                                chan_kw={"kind": "Rydberg", "eom": True, "addr": "Global", "bandwidth": [8, 40]}))
    reg = draw(gen.register_specs(n=(1, 2), layout=False))
    fl = lambda lo, hi: draw(gen.fl(lo, hi))  # noqa: E731
    offs = [0.0, 0.0, 100.0, -100.0, 3.0, -8.0]

    def enable():
        return dict(op="enable_eom", ch=0, amp_on=fl(0.5, 8.0), det_on=draw(st.sampled_from([0.0, 0.0, 2.0, -3.0])),
                    style="kw", opt_off=draw(st.sampled_from(offs)), cpd=draw(st.booleans()))

    def pulses():
        return [dict(op="add_eom", ch=0, d=draw(st.sampled_from([20, 52, 100])), phase=0.0, style="kw", pps=0.0,
                     cpd=False) for _ in range(draw(st.integers(1, 3)))]

    ops = [dict(op="declare", name="ch0", cid=0, style="pos"), enable()] + pulses()
    for _ in range(draw(st.integers(1, 2))):
        if draw(st.booleans()):
            e = enable()
            ops.append(dict(e, op="modify_eom"))
        else:
            ops += [dict(op="disable_eom", ch=0, style="pos"), enable()]
        ops += pulses()
    if draw(st.booleans()):
        ops.append(dict(op="disable_eom", ch=0, style="pos"))
    base = c08.normalise(dict(device=dev, register=reg, ops=ops))
    B = copy.deepcopy(base["device"])
    B["name"] = "GenDevB"
    B["channels"] = [draw(mutate_eom(c)) for c in B["channels"]]
    return dict(base=base, devB=B, strict=True, moved=[list(p) for p in base["register"]["coords"]])


@st.composite
def cases(draw, tier, prof=profile):
    base = c08.normalise(draw(gen.programs(prof(tier))))
    A = base["device"]
    B = copy.deepcopy(A)
    B["name"] = "GenDevB"
    dmm_focus = prof is profile_dmm and draw(st.booleans())
    retarget_focus = prof is profile_retarget
    eom_focus = prof is profile_eom
    if eom_focus:
        B["channels"] = [draw(mutate_eom(c)) for c in A["channels"]]
    elif retarget_focus:
        # only the retarget times change
        for c in B["channels"]:
            if draw(st.booleans()):
                c["min_retarget_interval"] = draw(st.sampled_from([0, 50, 100, 220]))
            if draw(st.integers(0, 3)) == 0:
                c["fixed_retarget_t"] = draw(st.sampled_from([0, 10, 100]))
    elif not dmm_focus:
        B["channels"] = [draw(mutate_channel(c)) for c in A["channels"]]
    if B.get("dmms") and (prof is profile_dmm or draw(st.booleans())):
        if dmm_focus and draw(st.booleans()):
            # only the DMM's minimum duration changes: nothing strict matching looks at
            for d in B["dmms"]:
                d["min_duration"] = draw(st.sampled_from([4, 20, 100, 400]))
                if d.get("max_duration") is not None:
                    d["max_duration"] = max(d["max_duration"], d["min_duration"])
        else:
            B["dmms"] = [draw(mutate_dmm(d)) for d in B["dmms"]]
    if not (retarget_focus or dmm_focus or eom_focus) or draw(st.integers(0, 3)) == 0:
        if draw(st.booleans()):
            B["channels"] = [B["channels"][i] for i in draw(st.permutations(list(range(len(B["channels"])))))]
        if draw(st.integers(0, 3)) == 0:
            B["channel_ids"] = [f"new{i}" for i in range(len(B["channels"]))]
        else:
            B.pop("channel_ids", None)
        if draw(st.integers(0, 4)) == 0 and len(B["channels"]) > 1:
            B["channels"] = B["channels"][:-1]
            if "channel_ids" in B:
                B["channel_ids"] = B["channel_ids"][:-1]
        if draw(st.integers(0, 3)) == 0:
            B["channels"] = B["channels"] + [draw(gen.channel_specs(physical=B["type"] == "physical"))]
            if "channel_ids" in B:
                B["channel_ids"] = B["channel_ids"] + ["extra"]
        if B["type"] == "virtual" and draw(st.booleans()):
            B["reusable_channels"] = draw(st.booleans())
        if draw(st.integers(0, 3)) == 0:
            B["rydberg_level"] = draw(st.sampled_from([50, 70, 100]))
        if draw(st.integers(0, 3)) == 0:
            B["max_sequence_duration"] = draw(st.sampled_from([600, 6000, 10**6]))
    if B["type"] == "physical":
        for c in B["channels"]:
            c.setdefault("max_duration", 2**26)
            if c.get("max_duration") is None:
                c["max_duration"] = 2**26
            if c["addr"] == "Local" and c.get("max_targets") is None:
                c["max_targets"] = 2
            c["max_amp"] = c.get("max_amp") or TWO_PI * 2
            c["max_abs_detuning"] = c.get("max_abs_detuning") or TWO_PI * 20
    moved = [[x + draw(st.sampled_from([0.0, 0.0, 1.0, -2.0])) * (i + 1) for x in p]
             for i, p in enumerate(base["register"]["coords"])]
    strict = draw(st.booleans()) or ((dmm_focus or retarget_focus or eom_focus) and draw(st.booleans()))
    out = dict(base=base, devB=B, strict=strict, moved=moved)
    if not base["register"].get("mappable") and draw(st.integers(0, 1 if (retarget_focus or eom_focus) else 2)) == 0:
        from pv import gen_param

        out["param"] = draw(gen_param.parametrized(base, rate=draw(st.sampled_from([10, 30])), custom_var=False))
    return out


def norm_timeline(seq) -> dict:
    """Per-channel slot list; an idle EOM slot whose off-detuning is zero up to rounding
    (|det| < 1e-9, e.g. -6e-16 from another light-shift coefficient) is the same
    instruction as a plain delay."""
    from pulser import Pulse

    out = {}
    for n, cs in seq._schedule.items():
        sl = []
        for s_ in cs.slots:
            sig = snap.slot_sig(s_)
            if isinstance(s_.type, Pulse) and history.is_detuned_delay(s_.type) and abs(
                    float(s_.type.detuning.samples.as_array()[0])) < 1e-9:
                sig = ("delay",) + tuple(sig[1:4])
            sl.append(sig)
        out[n] = sl
    return out


def timing_differs(A, B) -> bool:
    a = {(c["kind"], c["addr"]): c for c in A["channels"]}
    for c in B["channels"]:
        o = a.get((c["kind"], c["addr"]))
        if o and any(o.get(k) != c.get(k) for k in TIMING):
            return True
    for x, y in zip(A.get("dmms", []), B.get("dmms", [])):
        if any(x.get(k) != y.get(k) for k in TIMING):
            return True
    return False


def check(case, ctx: Ctx):
    from pulser.sampler import sample

    C = "C18.switch_device"
    base = case["base"]
    w = history.Walker(base, ctx, {"C02"}).run()
    seq = w.seq
    if w.aborted or not seq._schedule:
        return
    try:
        devB = build.mk_device(case["devB"])
    except Exception:  # noqa: BLE001 - the mutation made an invalid device
        ctx.label("invalid_device_B")
        return
    strict = case["strict"]
    ctx.label("strict" if strict else "non_strict")
    ctx.nontrivial(timing_differs(base["device"], case["devB"]) and w.stats["auto_delay"] >= 1)
    try:
        new = seq.switch_device(devB, strict=strict)
    except Exception as e:  # noqa: BLE001 - raising is always allowed
        ctx.label("raised:" + type(e).__name__)
        new = None
    if new is not None:
        ctx.label("switched")
        if new.device is not devB and new.device != devB:
            ctx.fail(C, "wrong_device", "")
        nd = lambda s_: sorted(n for n in s_.declared_channels if not n.startswith("dmm_"))  # noqa: E731
        # (DMM channel names derive from the device's DMM ids and may change)
        if nd(new) != nd(seq) or len(new.declared_channels) != len(seq.declared_channels):
            ctx.fail(C, "channel_names", f"{sorted(seq.declared_channels)} -> {sorted(new.declared_channels)}")
        if strict and not seq.is_parametrized():
            ta, tb = norm_timeline(seq), norm_timeline(new)
            # DMM names derive from the DMM ids and may change or swap: DMM
            # channels are compared by their position in declaration order
            ren = dict(zip([n for n in seq.declared_channels if n.startswith("dmm_")],
                           [n for n in new.declared_channels if n.startswith("dmm_")]))
            ta = {ren.get(k, k): v for k, v in ta.items()}
            d = snap.diff(ta, tb)
            slm_only = None
            if d and seq._slm_mask_dmm:
                # the automatically generated SLM-mask pulse (detuning -10 max(amp), bounded
                # by the DMM's bottom_detuning): the only difference, same slots?
                m = ren.get(seq._slm_mask_dmm, seq._slm_mask_dmm)
                tim = lambda t: {k: [x[:4] for x in v] for k, v in t.items()}  # noqa: E731
                rest = lambda t: {k: v for k, v in t.items() if k != m}  # noqa: E731
                if m in ta and m in tb and not snap.diff(tim(ta), tim(tb)) and not snap.diff(rest(ta), rest(tb)):
                    slm_only = seq._slm_mask_dmm
                    oa = seq._schedule[slm_only].channel_obj
                    ob = new._schedule[m].channel_obj
                    ctx.fail(C, "strict:slm_mask_detuning_changed",
                             f"strict switch kept the timing but changed the SLM-mask detuning on {slm_only}: {d}; "
                             f"bottom_detuning {oa.bottom_detuning} -> {ob.bottom_detuning}", cont=True)
            if d and not slm_only:
                ctx.fail(C, "strict:timeline_changed", f"strict switch changed the timeline: {d}; "
                                                       f"A={_chdiff(base['device'], case['devB'])}")
            if not seq.is_register_mappable():
                sa, sb = sample(seq), sample(new)
                for n in seq.declared_channels:
                    if n == slm_only:
                        continue
                    for key in ("amp", "det", "phase"):
                        xa = np.asarray(getattr(sa.channel_samples[n], key).as_array())
                        xb = np.asarray(getattr(sb.channel_samples[ren.get(n, n)], key).as_array())
                        if xa.shape != xb.shape or not np.allclose(xa, xb, rtol=0, atol=1e-12):
                            ctx.fail(C, f"strict:samples_changed:{key}", n)
                # the samples as they leave the channel (output modulation), where both can be computed
                try:
                    ma, mb = sample(seq, modulation=True), sample(new, modulation=True)
                except Exception:  # noqa: BLE001 - modulated sampling is C14's subject
                    ma = mb = None
                if ma is not None and not slm_only and not d:
                    for n in seq.declared_channels:
                        for key in ("amp", "det"):
                            xa = np.asarray(getattr(ma.channel_samples[n], key).as_array())
                            xb = np.asarray(getattr(mb.channel_samples[ren.get(n, n)], key).as_array())
                            # (an off detuning of 6e-17 instead of 0 turns the last buffer from a delay into
                            #  a "pulse", which the tree lets ring down: same output, longer array of zeros)
                            n_ = min(len(xa), len(xb))
                            rest = np.concatenate([xa[n_:], xb[n_:]])
                            # (the few extra samples are the very end of a ramp-down: below the bound of C14)
                            lim_ = 0.01 + 0.006 * float(max(np.max(np.abs(xa), initial=0.0), np.max(np.abs(xb), initial=0.0)))
                            # (how far the arrays extend is the tree's fall-time bookkeeping, C14's subject:
                            #  an off detuning of -4e-16 instead of 0 moved the end by 4 ns at seed 3)
                            if not np.allclose(xa[:n_], xb[:n_], rtol=0, atol=1e-9):
                                oa, ob = seq._schedule[n].channel_obj, new._schedule[ren.get(n, n)].channel_obj
                                ctx.fail(C, f"strict:modulated_samples_changed:{key}",
                                         f"{n}: mod_bandwidth {oa.mod_bandwidth} -> {ob.mod_bandwidth}, in EOM mode at some "
                                         f"point: {bool(seq._schedule[n].eom_blocks)}")
        elif not new.is_parametrized():
            # non-strict: the result must be a valid sequence on B
            w2 = history.Walker.__new__(history.Walker)
            w2.ctx, w2.seq, w2.stats, w2.it = ctx, new, dict(w.stats), w.it
            w2.prog = base
            empty = history.View.__new__(history.View)
            empty.ch = {}
            empty.parametrized = False
            post = history.View(new)
            op = {"op": "switch_device"}
            try:
                w2.check_c01(op, empty, post)
                w2.check_c02(op, post, post)
            except Exception as e:  # re-key under C18
                from pv.engine import Violation

                if isinstance(e, Violation):
                    ctx.fail(C, f"non_strict:{e.clause}:{e.disc}", e.msg)
                raise
    # ---- strict switch of the parametrized variant: built with the same values, the
    # switched template must give the identical timeline and samples (or the switch raises)
    pp = case.get("param")
    if pp and strict:
        CP = "C18.switch_device"
        tit, status = ctx.must(lambda: c08.run_template(pp, ctx, CP), CP, "template construction")
        T = tit.seq
        if T.is_parametrized() and all(st_ == "ok" for st_ in status):
            ctx.label("parametrized_strict")
            try:
                Tn = T.switch_device(devB, strict=True)
            except Exception as e:  # noqa: BLE001 - raising is always allowed
                ctx.label("parametrized_raised:" + type(e).__name__)
                Tn = None
            if Tn is not None:
                for j, vals in enumerate(pp["assignments"]):
                    outs = []
                    for s_ in (T, Tn):
                        try:
                            outs.append(s_.build(**vals))
                        except Exception as e:  # noqa: BLE001
                            outs.append(e)
                    if isinstance(outs[0], Exception):
                        continue  # the original does not build with these values
                    if isinstance(outs[1], Exception):
                        # refused at build time on the new device (e.g. its shorter maximum
                        # duration): a late refusal, not a different sequence
                        ctx.label("parametrized_switched_refused_at_build")
                        continue
                    ta, tb = norm_timeline(outs[0]), norm_timeline(outs[1])
                    ren = dict(zip([n for n in outs[0].declared_channels if n.startswith("dmm_")],
                                   [n for n in outs[1].declared_channels if n.startswith("dmm_")]))
                    ta = {ren.get(k, k): v for k, v in ta.items()}
                    d = snap.diff(ta, tb)
                    if d and not (outs[0]._slm_mask_dmm and "dmm" in d.split("/")[1]):
                        # the tree deliberately ignores `controlled_beams` when the new EOM controls
                        # both beams: it then offers more off-detuning options and the template's
                        # (un-updated) optimal_detuning_off may pick another one
                        chn = d.split("/")[1]
                        disc = "strict:parametrized:timeline_changed"
                        if chn in outs[0]._schedule and chn in outs[1]._schedule:
                            ea = getattr(outs[0]._schedule[chn].channel_obj, "eom_config", None)
                            eb = getattr(outs[1]._schedule[chn].channel_obj, "eom_config", None)
                            # (times and targets only: an idle EOM slot is a "delay" when the
                            #  off-detuning is 0 and a detuned pulse otherwise)
                            same_times = not snap.diff({k: [x[1:4] for x in v] for k, v in ta.items()},
                                                       {k: [x[1:4] for x in v] for k, v in tb.items()})
                            if ea is not None and eb is not None and same_times and len(
                                    getattr(eb, "controlled_beams", ())) > 1 and set(
                                    getattr(ea, "controlled_beams", ())) != set(eb.controlled_beams):
                                disc = "strict:parametrized:eom_more_controlled_beams_other_off_detuning"
                        ctx.fail(CP, disc,
                                 f"strict switch of a parametrized sequence, built with assignment {j}: {d}; "
                                 f"A={_chdiff(base['device'], case['devB'])}", cont=True)
    # ---- switch_register: same ids, moved atoms
    if seq.is_register_mappable():
        return
    CR = "C18.switch_register"
    from pulser import Register, Register3D

    reg = seq.register
    cls = Register3D if base["register"]["dim"] == 3 else Register
    try:
        newreg = cls({q: np.array(p, dtype=float) for q, p in zip(reg.qubit_ids, case["moved"])})
        seq.device.validate_register(newreg)
    except Exception:  # noqa: BLE001
        return
    try:
        sw = seq.switch_register(newreg)
    except Exception as e:  # noqa: BLE001
        # DMM limits depend on the atoms' weights, which move with the atoms
        if any(n.startswith("dmm_") for n in seq.declared_channels):
            ctx.label("switch_register_refused_with_dmm")
            return
        ctx.fail(CR, f"raised:{type(e).__name__}", str(e)[:200])
        return
    if not seq.is_parametrized():
        d = snap.diff(snap.timeline(seq), snap.timeline(sw))
        if d:
            ctx.fail(CR, "timeline_changed", d)
    if [c.name for c in sw._calls[1:]] != [c.name for c in seq._calls[1:]]:
        ctx.fail(CR, "instructions_lost", "")


def _chdiff(A, B):
    out = []
    for i, (a, b) in enumerate(zip(A["channels"], B["channels"])):
        out.append({k: (a.get(k), b.get(k)) for k in set(a) | set(b) if a.get(k) != b.get(k)})
    return out


CLAUSES = [
    Clause("switch", check, gen=lambda t: cases(t),
           budget={"quick": (16, 250), "thorough": (16, 2000)},
           doc="switch_device strict/non-strict and switch_register"),
    Clause("switch_retarget", check, gen=lambda t: cases(t, profile_retarget),
           budget={"quick": (8, 150), "thorough": (16, 1500)},
           doc="local channels with frequent retargets x devices differing only in retarget times (half parametrized)"),
    Clause("switch_eom_blocks", check, gen=lambda t: eom_block_cases(t),
           budget={"quick": (16, 60), "thorough": (16, 1500)},
           doc="strict switch between devices differing in the EOM configuration only, for a channel used in "
               "EOM mode from t=0 over several blocks of back-to-back pulses"),
    Clause("switch_eom", check, gen=lambda t: cases(t, profile_eom),
           budget={"quick": (8, 120), "thorough": (16, 1500)},
           doc="EOM-heavy programs x devices differing only in the EOM configuration (half parametrized)"),
    Clause("switch_dmm", check, gen=lambda t: cases(t, profile_dmm),
           budget={"quick": (16, 150), "thorough": (16, 1500)},
           doc="DMM-heavy programs (detuning maps, aligns on DMM channels) x DMM parameter changes"),
]
