"""C20 - observables and results are correct functions of the emulated state."""
from __future__ import annotations

import math

import numpy as np
from hypothesis import strategies as st

from pv import gen
from pv.engine import Clause, Ctx

TWO_PI = 2 * math.pi
RULE = (
    "(observables) Hypothesis-generated states (kets and density matrices of rank 2-3, "
    "qudit dimension 2-4 over every documented eigenbasis, 1-4 qudits) and random Hermitian "
    "Hamiltonians: every default observable's apply() against its definition evaluated with "
    "numpy (own number operators, Tr[rho H], Tr[rho H^2], variance, overlap, Tr[rho O]); "
    "BitStrings against the own marginalised distribution (7 sigma). (operators) generated "
    "operator representations and amplitude maps against an own numpy.kron construction; "
    "+, scalar *, @, apply_to, expect against matrix algebra. (results) generated small "
    "sequences (1-3 atoms, 2- and 3-level bases, time-dependent pulses) x observable lists "
    "with own / default evaluation times x noise (none, dephasing, amplitude, state "
    "preparation, temperature) through QutipBackendV2.run(): stored times == requested times "
    "(one value each, ascending), every value == its definition on the state stored for the "
    "same time with H(t), retrieval by observable / tag / attribute. Non-trivial: mixed "
    "state or dimension >= 3 or >= 2 qudits (observables, operators); >= 2 observables with "
    "different evaluation times or a stochastic noise model (results); distinct = distinct "
    "canonical JSON."
)
ASSUMPTIONS = [
    "numpy.kron/linear algebra as the reference; documented ordering: eigenstates[0] <-> (1,0,..), qudit 0 most significant",
    "H(t) in the results clause is QutipEmulator.get_hamiltonian(t*T) of a noiseless emulator (its correctness is C05's subject)",
    "numpy RNG seeded per case; statistical bounds at 7 sigma",
]

BASES = [["r", "g"], ["g", "h"], ["u", "d"], ["r", "g", "h"], ["r", "g", "x"], ["g", "h", "x"],
         ["r", "g", "h", "x"], ["0", "1"], ["u", "d", "x"]]
INFER = {frozenset("rg"): "r", frozenset("gh"): "h", frozenset("ud"): "d", frozenset("01"): "1"}


# ------------------------------------------------------------------ helpers (reference side)
def rand_state(rs, D, mixed, rank=2):
    def vec():
        v = rs.normal(size=D) + 1j * rs.normal(size=D)
        # some exactly-zero amplitudes
        if D > 2 and rs.uniform() < 0.4:
            v[rs.randint(0, D)] = 0.0
        return v / np.linalg.norm(v)

    if not mixed:
        return vec()
    w = rs.dirichlet(np.ones(rank))
    rho = np.zeros((D, D), dtype=complex)
    for k in range(rank):
        v = vec()
        rho += w[k] * np.outer(v, v.conj())
    return rho


def rand_herm(rs, D, scale=5.0):
    a = rs.normal(size=(D, D)) + 1j * rs.normal(size=(D, D))
    return scale * (a + a.conj().T) / 2


def as_rho(x):
    return x if x.ndim == 2 else np.outer(x, x.conj())


def digits(idx, dim, n):
    out = []
    for _ in range(n):
        out.append(idx % dim)
        idx //= dim
    return out[::-1]


def number_diag(eig, n, one, qs):
    """diag of prod_{q in qs} n_q in the documented ordering."""
    dim = len(eig)
    k = eig.index(one)
    d = np.zeros(dim ** n)
    for idx in range(dim ** n):
        dg = digits(idx, dim, n)
        d[idx] = float(all(dg[q] == k for q in qs))
    return d


def bit_dist(eig, n, one, probs):
    dim = len(eig)
    k = eig.index(one)
    out: dict = {}
    for idx, p in enumerate(probs):
        b = "".join("1" if x == k else "0" for x in digits(idx, dim, n))
        out[b] = out.get(b, 0.0) + float(p)
    return out


def joint_with_errors(dist, eps, epsp):
    """Distribution of measured bitstrings when every bit flips independently:
    0 -> 1 with probability eps, 1 -> 0 with probability epsp."""
    out: dict = {}
    for b, p in dist.items():
        if p <= 0:
            continue
        n = len(b)
        for k in range(2 ** n):
            m = format(k, f"0{n}b")
            f = 1.0
            for x, y in zip(b, m):
                if x == "0":
                    f *= eps if y == "1" else 1 - eps
                else:
                    f *= epsp if y == "0" else 1 - epsp
            if f > 0:
                out[m] = out.get(m, 0.0) + p * f
    return out


def mk_qstate(x, eig, n):
    import qutip
    from pulser_simulation import QutipState

    dim = len(eig)
    if x.ndim == 1:
        q = qutip.Qobj(x.reshape(-1, 1), dims=[[dim] * n, [1] * n])
    else:
        q = qutip.Qobj(x, dims=[[dim] * n, [dim] * n])
    return QutipState(q, eigenstates=tuple(eig))


def mk_qop(m, eig, n):
    import qutip
    from pulser_simulation import QutipOperator

    dim = len(eig)
    return QutipOperator(qutip.Qobj(m, dims=[[dim] * n, [dim] * n]), eigenstates=tuple(eig))


def close(a, b, scale=1.0, tol=1e-9):
    return abs(complex(a) - complex(b)) <= tol * max(1.0, scale)


# ------------------------------------------------------------------ observables
@st.composite
def obs_cases(draw):
    eig = draw(st.sampled_from(BASES))
    dim = len(eig)
    nmax = {2: 4, 3: 3, 4: 2}[dim]
    n = draw(st.integers(1, nmax))
    inferable = frozenset(eig) in INFER
    one = None if (inferable and draw(st.booleans())) else draw(st.sampled_from(eig))
    return dict(eig=eig, n=n, mixed=draw(st.booleans()), rank=draw(st.integers(2, 3)),
                other_mixed=draw(st.booleans()), seed=draw(st.integers(0, 2**31 - 1)),
                one=one, eps=draw(st.sampled_from([0.0, 0.0, 0.1, 0.3])),
                epsp=draw(st.sampled_from([0.0, 0.0, 0.05, 0.2])),
                shots=draw(st.sampled_from([1000, 4000])))


def check_obs(case, ctx: Ctx):
    from pulser.backend import (BitStrings, CorrelationMatrix, Energy, EnergySecondMoment,
                                EnergyVariance, Expectation, Fidelity, Occupation, StateResult)
    from pulser.noise_model import NoiseModel
    from pulser_simulation import QutipConfig

    C = "C20.observables"
    eig, n = case["eig"], case["n"]
    dim = len(eig)
    D = dim ** n
    rs = np.random.RandomState(case["seed"] % (2**32))
    x = rand_state(rs, D, case["mixed"], case["rank"])
    rho = as_rho(x)
    H = rand_herm(rs, D)
    O = rand_herm(rs, D, 1.0) + 1j * rand_herm(rs, D, 0.3)  # a non-Hermitian operator too
    y = rand_state(rs, D, case["other_mixed"], 2)
    stt = mk_qstate(x, eig, n)
    other = mk_qstate(y, eig, n)
    ham = mk_qop(H, eig, n)
    one = case["one"] or INFER[frozenset(eig)]
    kind = ("mixed" if case["mixed"] else "pure")
    ctx.nontrivial(case["mixed"] or dim >= 3 or n >= 2)
    ctx.label(kind, f"dim={dim}", f"n={n}", "one_inferred" if case["one"] is None else "one_given")
    nm = NoiseModel(p_false_pos=case["eps"], p_false_neg=case["epsp"]) if (case["eps"] or case["epsp"]) \
        else NoiseModel()
    cfg = QutipConfig(observables=[StateResult()], noise_model=nm)
    kw = dict(config=cfg, state=stt, hamiltonian=ham)
    okw = {} if case["one"] is None else {"one_state": case["one"]}
    probs = np.real(np.diag(rho))
    sc = float(np.linalg.norm(H, 2))

    # occupation / correlation
    occ = ctx.must(lambda: Occupation(**okw).apply(**kw), C, f"Occupation.apply:{kind}")
    for i in range(n):
        e = float(np.dot(number_diag(eig, n, one, [i]), probs))
        if not close(occ[i], e):
            ctx.fail(C, f"occupation:{kind}", f"<n_{i}> = {occ[i]} vs {e} (eigenstates {eig}, one {one})")
    cm = ctx.must(lambda: CorrelationMatrix(**okw).apply(**kw), C, f"CorrelationMatrix.apply:{kind}")
    for i in range(n):
        for j in range(n):
            e = float(np.dot(number_diag(eig, n, one, [i, j]), probs))
            if not close(cm[i][j], e):
                ctx.fail(C, f"correlation:{kind}", f"<n_{i} n_{j}> = {cm[i][j]} vs {e}")
    # energy family
    e1 = np.trace(rho @ H)
    e2 = np.trace(rho @ H @ H)
    got = ctx.must(lambda: Energy().apply(**kw), C, f"Energy.apply:{kind}")
    if not close(got, e1, sc):
        ctx.fail(C, f"energy:{kind}", f"{got} vs Tr[rho H] = {e1}")
    got = ctx.must(lambda: EnergySecondMoment().apply(**kw), C, f"EnergySecondMoment.apply:{kind}")
    if not close(got, e2, sc * sc):
        ctx.fail(C, f"energy_second_moment:{kind}", f"{got} vs Tr[rho H^2] = {e2.real} (dim {dim}, n {n})",
                 cont=True)
    got = ctx.must(lambda: EnergyVariance().apply(**kw), C, f"EnergyVariance.apply:{kind}")
    if not close(got, e2 - e1 ** 2, sc * sc):
        ctx.fail(C, f"energy_variance:{kind}",
                 f"{got} vs Tr[rho H^2] - Tr[rho H]^2 = {(e2 - e1 ** 2).real}", cont=True)
    # fidelity: Tr[A B], |<a|b>|^2 for pure states
    okind = "mixed" if case["other_mixed"] else "pure"
    ef = float(np.real(np.trace(as_rho(y) @ rho)))
    try:
        got = Fidelity(other).apply(**kw)
        if not close(got, ef):
            ctx.fail(C, f"fidelity:{okind}_vs_{kind}", f"{got} vs {ef}")
    except Exception as e:  # noqa: BLE001
        from pv.engine import exc_disc

        ctx.fail(C, f"fidelity:{okind}_vs_{kind}:{exc_disc(e)}", f"{type(e).__name__}: {str(e)[:200]}", cont=True)
    # expectation
    got = ctx.must(lambda: Expectation(mk_qop(O, eig, n)).apply(**kw), C, f"Expectation.apply:{kind}")
    ee = np.trace(rho @ O)
    if not close(got, ee, float(np.linalg.norm(O, 2))):
        ctx.fail(C, f"expectation:{kind}", f"{got} vs Tr[rho O] = {ee}")
    # state result: a copy
    cp = StateResult().apply(**kw)
    if cp is stt or not np.allclose(cp.to_qobj().full(), stt.to_qobj().full(), atol=0):
        ctx.fail(C, "state_result_copy", "")
    # bitstrings
    shots = case["shots"]
    np.random.seed(case["seed"] % (2**32))
    cnt = ctx.must(lambda: BitStrings(num_shots=shots, **okw).apply(**kw), C, f"BitStrings.apply:{kind}")
    if sum(cnt.values()) != shots:
        ctx.fail(C, "bitstrings:count", f"{sum(cnt.values())} != {shots}")
    dist = bit_dist(eig, n, one, probs / probs.sum())
    eps, epsp = case["eps"], case["epsp"]
    if any(len(b) != n or set(b) - {"0", "1"} for b in cnt):
        ctx.fail(C, "bitstrings:format", f"{list(cnt)[:4]}")
    for i in range(n):
        p1 = sum(p for b, p in dist.items() if b[i] == "1")
        pe = p1 * (1 - epsp) + (1 - p1) * eps
        g = sum(c for b, c in cnt.items() if b[i] == "1") / shots
        sig = math.sqrt(max(pe * (1 - pe), 1e-12) / shots)
        if abs(g - pe) > 7 * sig + 2e-3:
            ctx.fail(C, f"bitstrings:rate:{'one_given' if case['one'] else 'one_inferred'}",
                     f"qudit {i}: P(1) sampled {g:.4f}, expected {pe:.4f} (eigenstates {eig}, one {one}, "
                     f"eps {eps}, eps' {epsp})")
    if eps == 0 and epsp == 0:
        for b in cnt:
            if dist.get(b, 0.0) <= 0:
                ctx.fail(C, "bitstrings:outside_support", f"{b} (eigenstates {eig}, one {one})")
    # the joint distribution (flips are independent between qudits)
    jd = joint_with_errors(dist, eps, epsp)
    for b in set(jd) | set(cnt):
        pj = jd.get(b, 0.0)
        g = cnt.get(b, 0) / shots
        sig = math.sqrt(max(pj * (1 - pj), 1e-12) / shots)
        if abs(g - pj) > 7 * sig + 3e-3:
            ctx.fail(C, "bitstrings:joint_distribution" + (":with_errors" if (eps or epsp) else ""),
                     f"P({b}) sampled {g:.4f}, expected {pj:.4f} (eigenstates {eig}, one {one}, eps {eps}, eps' {epsp})")


# ------------------------------------------------------------------ operators and states
@st.composite
def op_cases(draw):
    eig = draw(st.sampled_from(BASES))
    dim = len(eig)
    n = draw(st.integers(1, {2: 4, 3: 3, 4: 2}[dim]))
    cf = st.sampled_from([1.0, -1.0, 0.5, 2.0, 0.0]) | gen.fl(-3, 3)

    def qudit_op():
        k = draw(st.integers(1, 3))
        out = {}
        for _ in range(k):
            out[draw(st.sampled_from(eig)) + draw(st.sampled_from(eig))] = [draw(cf), draw(cf)]
        return out

    def tensor_op():
        perm = list(draw(st.permutations(list(range(n)))))
        k = draw(st.integers(0, n))
        used = perm[:k]
        groups = []
        while used:
            sz = draw(st.integers(1, len(used)))
            groups.append([qudit_op(), sorted(used[:sz])])
            used = used[sz:]
        return groups

    def full_op():
        return [[[draw(cf), draw(cf)], tensor_op()] for _ in range(draw(st.integers(1, 3)))]

    nb = draw(st.integers(1, min(dim ** n, 4)))
    amps = {}
    for _ in range(nb):
        key = "".join(draw(st.sampled_from(eig)) for _ in range(n))
        amps[key] = [draw(cf), draw(cf)]
    return dict(eig=eig, n=n, A=full_op(), B=full_op(), c=[draw(cf), draw(cf)], amps=amps,
                mixed=draw(st.booleans()), seed=draw(st.integers(0, 2**31 - 1)))


def ref_full_op(eig, n, fop):
    dim = len(eig)
    D = dim ** n
    out = np.zeros((D, D), dtype=complex)
    for (cr, ci), top in fop:
        mats = [np.eye(dim, dtype=complex) for _ in range(n)]
        for qop, inds in top:
            m = np.zeros((dim, dim), dtype=complex)
            for key, (r, i) in qop.items():
                m[eig.index(key[0]), eig.index(key[1])] += complex(r, i)
            for q in inds:
                mats[q] = m
        t = np.array([[1.0 + 0j]])
        for m in mats:
            t = np.kron(t, m)
        out += complex(cr, ci) * t
    return out


def api_full_op(fop):
    return [(complex(c[0], c[1]), [({k: complex(v[0], v[1]) for k, v in qop.items()}, set(inds))
                                   for qop, inds in top]) for c, top in fop]


def check_ops(case, ctx: Ctx):
    from pulser_simulation import QutipOperator, QutipState

    C = "C20.operators"
    eig, n = case["eig"], case["n"]
    dim = len(eig)
    D = dim ** n
    ctx.nontrivial(dim >= 3 or n >= 2)
    ctx.label(f"dim={dim}", f"n={n}")
    A_ref, B_ref = ref_full_op(eig, n, case["A"]), ref_full_op(eig, n, case["B"])
    A = ctx.must(lambda: QutipOperator.from_operator_repr(
        eigenstates=tuple(eig), n_qudits=n, operations=api_full_op(case["A"])), C, "from_operator_repr")
    B = ctx.must(lambda: QutipOperator.from_operator_repr(
        eigenstates=tuple(eig), n_qudits=n, operations=api_full_op(case["B"])), C, "from_operator_repr")
    sc = max(1.0, float(np.abs(A_ref).max()), float(np.abs(B_ref).max()))

    def same(q, ref, what):
        m = q.to_qobj().full()
        if m.shape != ref.shape or np.max(np.abs(m - ref)) > 1e-9 * sc * sc:
            ctx.fail(C, what, f"eigenstates {eig}, n={n}: max diff {np.max(np.abs(m - ref)) if m.shape == ref.shape else m.shape}")

    same(A, A_ref, "from_operator_repr")
    if A.to_qobj().dims != [[dim] * n, [dim] * n]:
        ctx.fail(C, "operator_dims", f"{A.to_qobj().dims}")
    same(ctx.must(lambda: A + B, C, "__add__"), A_ref + B_ref, "add")
    c = complex(*case["c"])
    same(ctx.must(lambda: c * A, C, "__rmul__"), c * A_ref, "scale")
    same(ctx.must(lambda: A @ B, C, "__matmul__"), A_ref @ B_ref, "matmul")
    rs = np.random.RandomState(case["seed"] % (2**32))
    x = rand_state(rs, D, case["mixed"])
    stt = mk_qstate(x, eig, n)
    out = ctx.must(lambda: A.apply_to(stt), C, "apply_to").to_qobj().full()
    ref = (A_ref @ x).reshape(-1, 1) if x.ndim == 1 else A_ref @ x @ A_ref.conj().T
    if out.shape != ref.shape or np.max(np.abs(out - ref)) > 1e-9 * sc * sc:
        ctx.fail(C, "apply_to:" + ("mixed" if case["mixed"] else "pure"), "")
    got = ctx.must(lambda: A.expect(stt), C, "expect")
    if not close(got, np.trace(as_rho(x) @ A_ref), sc):
        ctx.fail(C, "expect:" + ("mixed" if case["mixed"] else "pure"),
                 f"{got} vs {np.trace(as_rho(x) @ A_ref)}")
    # states from amplitudes
    amps = {k: complex(*v) for k, v in case["amps"].items()}
    s2 = ctx.must(lambda: QutipState.from_state_amplitudes(eigenstates=tuple(eig), amplitudes=amps),
                  C, "from_state_amplitudes")
    v = np.zeros(D, dtype=complex)
    for key, a in amps.items():
        idx = 0
        for ch in key:
            idx = idx * dim + eig.index(ch)
        v[idx] += a
    got = s2.to_qobj().full().reshape(-1)
    if got.shape != v.shape or np.max(np.abs(got - v)) > 1e-12:
        ctx.fail(C, "from_state_amplitudes", f"{amps}")
    if s2.n_qudits != n or s2.qudit_dim != dim:
        ctx.fail(C, "n_qudits", f"{s2.n_qudits} vs {n}")
    for idx in {0, D - 1, D // 2, case["seed"] % D}:
        lab = "".join(eig[d] for d in digits(idx, dim, n))
        if s2.get_basis_state_from_index(idx) != lab:
            ctx.fail(C, "get_basis_state_from_index", f"{idx}: {s2.get_basis_state_from_index(idx)} vs {lab}")
    nrm = float(np.sum(np.abs(v) ** 2))
    if nrm > 1e-6:
        pr = ctx.must(lambda: s2.probabilities(), C, "probabilities")
        exp = {}
        for idx in range(D):
            p = abs(v[idx]) ** 2 / nrm
            if abs(v[idx]) ** 2 > 1e-12:
                exp["".join(eig[d] for d in digits(idx, dim, n))] = p
        if set(pr) != set(exp) or any(abs(pr[k] - exp[k]) > 1e-9 for k in exp):
            # (the cutoff applies before normalisation: only compare when clearly above it)
            if all(abs(a) ** 2 > 1e-10 or abs(a) == 0 for a in v):
                ctx.fail(C, "probabilities", f"{pr} vs {exp}")
        # overlap of the state with itself and with the random state
        y = mk_qstate(x, eig, n)
        ov = ctx.must(lambda: s2.overlap(y), C, "overlap")
        e = float(np.real(np.trace(np.outer(v, v.conj()) @ as_rho(x))))
        if not close(ov, e, nrm):
            ctx.fail(C, "overlap:" + ("ket_dm" if case["mixed"] else "ket_ket"), f"{ov} vs {e}")


# ------------------------------------------------------------------ results through the backend
OBS_KINDS = ["occupation", "correlation", "energy", "energy_variance", "energy_second_moment",
             "fidelity", "expectation", "bitstrings"]


@st.composite
def res_cases(draw):
    basis = draw(st.sampled_from(["ground-rydberg", "ground-rydberg", "XY", "digital", "all"]))
    n = draw(st.integers(1, 3 if basis != "all" else 2))
    npul = draw(st.integers(1, 3))
    pulses = []
    for _ in range(npul):
        pulses.append(dict(d=draw(st.sampled_from([16, 20, 52, 100])),
                           a0=draw(gen.fl(0.0, 10.0)), a1=draw(gen.fl(0.0, 10.0)),
                           d0=draw(gen.fl(-8.0, 8.0)), d1=draw(gen.fl(-8.0, 8.0)),
                           phase=draw(st.sampled_from([0.0, 1.0, math.pi])),
                           ch=draw(st.integers(0, 1)), gap=draw(st.sampled_from([0, 0, 16, 40]))))
    noise = draw(st.sampled_from(["none", "none", "dephasing", "amp", "prep", "doppler", "amp+dephasing"]))

    def times():
        k = draw(st.integers(1, 4))
        return sorted({draw(st.integers(0, 40)) / 40 for _ in range(k)})

    default = draw(st.sampled_from(["default", "Full", "list", "list"]))
    obs = []
    for i in range(draw(st.integers(1, 4))):
        o = dict(kind=draw(st.sampled_from(OBS_KINDS)), times=(times() if draw(st.booleans()) else None), sfx=f"o{i}")
        obs.append(o)
    out = dict(basis=basis, n=n, pulses=pulses, noise=noise, default=default, default_times=times(),
               obs=obs, seed=draw(st.integers(0, 2**31 - 1)), sampling_rate=draw(st.sampled_from([1.0, 1.0, 0.5])),
               runs=draw(st.sampled_from([3, 6])))
    if basis == "ground-rydberg" and draw(st.integers(0, 2)) == 0:
        # output modulation: the emulated duration includes the fall time of the last pulse and
        # relative times refer to it
        out["mod_bw"] = draw(st.sampled_from([4, 10]))
    return out


def build_res_seq(case):
    from pulser import Pulse, Register, Sequence
    from pulser.devices import MockDevice
    from pulser.waveforms import RampWaveform

    n = case["n"]
    dev = MockDevice
    if case.get("mod_bw"):
        from pulser.channels import Rydberg
        from pulser.devices import VirtualDevice

        dev = VirtualDevice(name="Mod", dimensions=2, rydberg_level=60, channel_objects=(
            Rydberg.Global(None, None, mod_bandwidth=case["mod_bw"]),))
    seq = Sequence(Register({f"q{i}": (7.0 * i, 0.0) for i in range(n)}), dev)
    b = case["basis"]
    if b == "XY":
        chans = ["mw_global"]
    elif b == "digital":
        chans = ["raman_global"]
    elif b == "all":
        chans = ["rydberg_global", "raman_global"]
    else:
        chans = ["rydberg_global"]
    for i, c in enumerate(chans):
        seq.declare_channel(f"c{i}", c)
    for p in case["pulses"]:
        name = f"c{p['ch'] % len(chans)}"
        if p["gap"]:
            seq.delay(p["gap"], name)
        seq.add(Pulse(RampWaveform(p["d"], p["a0"], p["a1"]), RampWaveform(p["d"], p["d0"], p["d1"]), p["phase"]),
                name)
    return seq


def check_results(case, ctx: Ctx):
    import qutip
    from pulser.backend import (BitStrings, CorrelationMatrix, Energy, EnergySecondMoment,
                                EnergyVariance, Expectation, Fidelity, Occupation, StateResult)
    from pulser.noise_model import NoiseModel
    from pulser_simulation import QutipBackendV2, QutipConfig, QutipEmulator, QutipOperator, QutipState

    C = "C20.results"
    seq = build_res_seq(case)
    mkw = dict(with_modulation=True) if case.get("mod_bw") else {}
    T = seq.get_duration(include_fall_time=bool(mkw))
    if mkw:
        ctx.label("with_modulation")
    sr = case["sampling_rate"] if case["sampling_rate"] * T >= 8 else 1.0
    clean = QutipEmulator.from_sequence(seq, sampling_rate=sr, **mkw)
    eig = list(clean.samples_obj.eigenbasis)
    dim = len(eig)
    n = case["n"]
    D = dim ** n
    rs = np.random.RandomState(case["seed"] % (2**32))
    if set(eig) == {"r", "g"}:
        one = "r"
    elif set(eig) == {"g", "h"}:
        one = "h"
    elif set(eig) == {"u", "d"}:
        one = "d"
    else:
        one = "r"
    inferable = frozenset(eig) in INFER
    ref_state = rand_state(rs, D, False)
    Oref = rand_herm(rs, D, 1.0)

    def snap_t(ts):
        # requested times on the ns grid (k/T), >= 2 ns apart: unambiguous under the
        # backend's documented +-0.5 ns matching
        out = sorted({round(t * T) / T for t in ts})
        return [t for i, t in enumerate(out) if i == 0 or (t - out[i - 1]) * T >= 2]

    obs_objs = []
    for o in case["obs"]:
        kw = dict(tag_suffix=o["sfx"])
        if o["times"] is not None:
            kw["evaluation_times"] = snap_t(o["times"])
        k = o["kind"]
        okw = {} if inferable else {"one_state": one}
        if k == "occupation":
            ob = Occupation(**kw, **okw)
        elif k == "correlation":
            ob = CorrelationMatrix(**kw, **okw)
        elif k == "energy":
            ob = Energy(**kw)
        elif k == "energy_variance":
            ob = EnergyVariance(**kw)
        elif k == "energy_second_moment":
            ob = EnergySecondMoment(**kw)
        elif k == "fidelity":
            ob = Fidelity(mk_qstate(ref_state, eig, n), **kw)
        elif k == "expectation":
            ob = Expectation(mk_qop(Oref, eig, n), **kw)
        else:
            ob = BitStrings(num_shots=2000, **kw, **okw)
        obs_objs.append((o, ob))
    nm_kw = dict(runs=case["runs"], samples_per_run=1)
    noise = case["noise"]
    xy = case["basis"] == "XY"
    if noise == "none":
        nm = NoiseModel()
    elif noise == "dephasing":
        nm = NoiseModel(dephasing_rate=0.3) if not xy else NoiseModel(dephasing_rate=0.3)
    elif noise == "amp":
        nm = NoiseModel(amp_sigma=0.1, **nm_kw)
    elif noise == "prep":
        nm = NoiseModel(state_prep_error=0.3, **nm_kw)
    elif noise == "doppler":
        nm = NoiseModel(temperature=50.0, **nm_kw)
    else:
        nm = NoiseModel(amp_sigma=0.1, dephasing_rate=0.2, **nm_kw)
    stochastic = noise in ("amp", "prep", "doppler", "amp+dephasing")
    ckw = {}
    if case["default"] == "Full":
        ckw["default_evaluation_times"] = "Full"
        default_req = None
    elif case["default"] == "list":
        default_req = snap_t(case["default_times"])
        ckw["default_evaluation_times"] = default_req
    else:
        default_req = [1.0]
    # the states: one StateResult at the union of all requested times
    union = set(default_req or [])
    for o, ob in obs_objs:
        union |= set(ob.evaluation_times or [])
    st_obs = StateResult(evaluation_times=sorted(union) or None, tag_suffix="all")
    try:
        cfg = QutipConfig(observables=[st_obs] + [ob for _, ob in obs_objs], noise_model=nm,
                          sampling_rate=sr, **ckw, **mkw)
    except Exception as e:  # noqa: BLE001 - a refused configuration is not a result
        ctx.label("config_refused:" + type(e).__name__)
        return
    np.random.seed(case["seed"] % (2**32))
    try:
        be = QutipBackendV2(seq, config=cfg)
    except (NotImplementedError, ValueError, TypeError) as e:
        ctx.label("backend_refused:" + type(e).__name__)
        return
    ctx.label(f"noise={noise}", f"basis={case['basis']}", f"default={case['default']}")
    differing = len({tuple(ob.evaluation_times or ()) for _, ob in obs_objs}) >= 2
    ctx.nontrivial(differing or stochastic)
    from pv.engine import exc_disc

    try:
        res = be.run()
    except Exception as e:  # noqa: BLE001
        ctx.fail(C, f"run:{exc_disc(e)}:{'stochastic' if stochastic else 'single'}:dim={dim}",
                 f"QutipBackendV2.run() failed (noise {noise}, eigenstates {eig}): {type(e).__name__}: {str(e)[:200]}",
                 cont=True)
        return
    if int(res.total_duration) != int(T):
        ctx.fail(C, "total_duration", f"Results.total_duration {res.total_duration} != emulated duration {T} ns "
                                      f"(relative evaluation times refer to it)", cont=True)
    tol = 0.5 / T + 1e-12
    grid = None
    if case["default"] == "Full":
        grid = [float(t) / (T / 1000) for t in clean.sampling_times]
    st_times = res.get_result_times(st_obs)
    states = {t: s for t, s in zip(st_times, res.get_tagged_results()[st_obs.tag])}

    def state_at(t):
        for ts, s in states.items():
            if abs(ts - t) < 1e-12:
                return s
        return None

    tags = res.get_result_tags()
    for o, ob in [({"kind": "state", "times": sorted(union)}, st_obs)] + obs_objs:
        k = o["kind"]
        if ob.tag not in tags:
            ctx.fail(C, "tag_missing", f"{ob.tag} not in {tags}")
            continue
        times = res.get_result_times(ob)
        if times != res.get_result_times(ob.tag):
            ctx.fail(C, "times_by_tag", "")
        if any(b <= a for a, b in zip(times, times[1:])):
            ctx.fail(C, "times_not_ascending", f"{ob.tag}: {times}")
        vals = getattr(res, ob.tag)
        if len(vals) != len(times) or len(res.get_tagged_results()[ob.tag]) != len(times):
            ctx.fail(C, "values_vs_times_length", f"{ob.tag}: {len(vals)} values, {len(times)} times")
        # requested times
        if ob.evaluation_times is not None:
            want = list(ob.evaluation_times)
        elif grid is not None:
            want = grid
        else:
            want = default_req
        if grid is not None and ob.evaluation_times is None:
            # "Full": every step of the emulation is an evaluation time. The statement does
            # not fix the grid (the config and the emulator build slightly different ones):
            # required are the final time, every time another observable asked for (those
            # are steps too), about sampling_rate * T values and no hole in the grid
            need = sorted(union | {1.0})
            ok = all(any(abs(t - w) <= tol for t in times) for w in need) and \
                len(times) >= int(sr * T) - 1 and \
                all((b - a) * T <= 2 / sr + 1.5 for a, b in zip(times, times[1:])) and \
                times[0] * T <= 2 / sr + 1.5
            want = need
        else:
            ok = len(times) == len(want) and all(abs(a - b) <= tol for a, b in zip(times, sorted(want)))
        if not ok:
            extra = [t for t in times if all(abs(t - w) > tol for w in want)]
            missing = [w for w in want if all(abs(t - w) > tol for t in times)]
            what = "extra" if extra and not missing else ("missing" if missing and not extra else "mismatch")
            own = "own_times" if ob.evaluation_times is not None else "default_times"
            ctx.fail(C, f"evaluation_times:{what}:{own}",
                     f"{ob.tag}: requested {want[:6]}, stored {times[:8]} (T={T}, default {ckw.get('default_evaluation_times', [1.0])})",
                     cont=True)
        if k == "state":
            continue
        for t, v in zip(times, vals):
            if res.get_result(ob, t) is not v and res.get_result(ob, t) != v:
                ctx.fail(C, "get_result", f"{ob.tag} at {t}")
            s = state_at(t)
            if s is None:
                continue  # (an extra time, already reported)
            m = s.to_qobj().full()
            rho = m if m.shape[1] > 1 else np.outer(m.reshape(-1), m.reshape(-1).conj())
            probs = np.real(np.diag(rho))
            Hq = clean.get_hamiltonian(t * T)
            Hm = Hq.full()
            sc = max(1.0, float(np.abs(Hm).max()))
            kindm = "mixed" if m.shape[1] > 1 else "pure"
            if k == "occupation":
                for i in range(n):
                    e = float(np.dot(number_diag(eig, n, one, [i]), probs))
                    if not close(v[i], e):
                        ctx.fail(C, f"occupation:{kindm}", f"t={t}: {v[i]} vs {e}")
            elif k == "correlation":
                for i in range(n):
                    for j in range(n):
                        e = float(np.dot(number_diag(eig, n, one, [i, j]), probs))
                        if not close(v[i][j], e):
                            ctx.fail(C, f"correlation:{kindm}", f"t={t}: {v[i][j]} vs {e}")
            elif k == "energy":
                e = np.trace(rho @ Hm)
                if not close(v, e, sc, 1e-7):
                    ctx.fail(C, f"energy:{kindm}:{'stochastic' if stochastic else 'single'}",
                             f"t={t} (T={T}): stored {v} vs Tr[rho(t) H(t)] = {e.real}")
            elif k == "energy_second_moment":
                e = np.trace(rho @ Hm @ Hm)
                if not close(v, e, sc * sc, 1e-7):
                    ctx.fail(C, f"energy_second_moment:{kindm}", f"t={t}: stored {v} vs Tr[rho H^2] = {e.real}",
                             cont=True)
            elif k == "energy_variance":
                e = np.trace(rho @ Hm @ Hm) - np.trace(rho @ Hm) ** 2
                if not close(v, e, sc * sc, 1e-7):
                    ctx.fail(C, f"energy_variance:{kindm}", f"t={t}: stored {v} vs {e.real}", cont=True)
            elif k == "fidelity":
                e = float(np.real(ref_state.conj() @ rho @ ref_state))
                if not close(v, e):
                    ctx.fail(C, f"fidelity:{kindm}", f"t={t}: {v} vs {e}")
            elif k == "expectation":
                e = np.trace(rho @ Oref)
                if not close(v, e):
                    ctx.fail(C, f"expectation:{kindm}", f"t={t}: {v} vs {e}")
            elif k == "bitstrings":
                if sum(v.values()) != 2000:
                    ctx.fail(C, "bitstrings:count", f"{sum(v.values())}")
                dist = bit_dist(eig, n, one, probs / probs.sum())
                for i in range(n):
                    p1 = sum(p for b, p in dist.items() if b[i] == "1")
                    g = sum(c for b, c in v.items() if b[i] == "1") / 2000
                    sig = math.sqrt(max(p1 * (1 - p1), 1e-12) / 2000)
                    if abs(g - p1) > 7 * sig + 2e-3:
                        ctx.fail(C, "bitstrings:rate", f"t={t}, qudit {i}: {g:.4f} vs {p1:.4f}")


# ------------------------------------------------------------------ evaluation-time matching
@st.composite
def match_cases(draw):
    T = draw(st.sampled_from([16, 100, 1000, 9999, 60000, 100000, 250000]) | st.integers(8, 300000))
    k = draw(st.integers(1, 4))
    req = sorted({draw(st.integers(0, T)) / T for _ in range(k)})
    # query times: on a requested time, +-0.4/0.5/0.6/1/2 ns away, and arbitrary
    qs = []
    for r in req:
        for dn in draw(st.lists(st.sampled_from([0.0, 0.4, -0.4, 0.5, -0.5, 0.6, -0.6, 1.0, -1.0, 2.0, -2.0]),
                                min_size=2, max_size=5, unique=True)):
            qs.append(r + dn / T)
    qs += [draw(st.floats(-0.1, 1.1)) for _ in range(2)]
    return dict(T=T, req=req, queries=qs)


def check_match(case, ctx: Ctx):
    """is_time_in_evaluation_times(t, times, tol) <=> 0 <= t <= 1 and min|t - x| <= tol, and an
    Observable stores exactly at the solver times within half a ns of a requested time."""
    from pulser.backend import Occupation, Results, StateResult
    from pulser_simulation import QutipConfig

    C = "C20.results"
    T, req = case["T"], case["req"]
    tol = 0.5 / T
    cfg = QutipConfig(observables=[StateResult()], default_evaluation_times=req)
    ctx.nontrivial(T >= 50000 or len(req) >= 2)
    ctx.label("long_sequence" if T >= 50000 else "short_sequence")
    for t in case["queries"]:
        dmin = min(abs(t - x) for x in req)
        if abs(dmin - tol) < 1e-9 * max(1.0, tol) + 1e-15:
            continue  # exactly on the boundary: rounding decides
        exp = (0.0 <= t <= 1.0) and dmin <= tol
        got = ctx.must(lambda: bool(cfg.is_time_in_evaluation_times(t, req, tol=tol)), C, "is_time_in_evaluation_times")
        if got != exp:
            ctx.fail(C, "time_matching:" + ("extra" if got else "missing"),
                     f"T={T} ns, requested {req}, t={t!r} ({dmin * T:.3f} ns from the nearest, tolerance 0.5 ns): {got}")
    # through Observable.__call__ with a hand-made Results
    obs = Occupation(evaluation_times=req, one_state="r")
    res = Results(atom_order=("q0",), total_duration=T)
    st0 = mk_qstate(np.array([0.6, 0.8], dtype=complex), ["r", "g"], 1)
    ham = mk_qop(np.eye(2, dtype=complex), ["r", "g"], 1)
    cfg2 = QutipConfig(observables=[obs], default_evaluation_times=[1.0])
    called = sorted({q for q in case["queries"] if 0 <= q <= 1} | set(req))
    called = [q for i, q in enumerate(called) if i == 0 or q - called[i - 1] > 1e-12]
    for t in called:
        try:
            obs(config=cfg2, t=t, state=st0, hamiltonian=ham, result=res)
        except Exception as e:  # noqa: BLE001
            ctx.fail(C, f"observable_call:{type(e).__name__}", f"{e}")
    stored = res.get_result_times(obs) if obs.tag in res.get_result_tags() else []
    want = [t for t in called if min(abs(t - x) for x in req) <= tol * (1 - 1e-9)
            or abs(t - 1.0) <= tol * (1 - 1e-9)]  # (own times and - known finding - the default time)
    amb = [t for t in called if abs(min(abs(t - x) for x in req) - tol) < 1e-9 * tol + 1e-15]
    extra = [t for t in stored if t not in want and t not in amb]
    missing = [t for t in want if t not in stored]
    if extra or missing:
        ctx.fail(C, "observable_call:stored_times:" + ("extra" if extra else "missing"),
                 f"T={T} ns, requested {req}: called at {called[:8]}, stored {stored[:8]} "
                 f"(extra {extra[:4]}, missing {missing[:4]})")


CLAUSES = [
    Clause("observables", check_obs, gen=lambda t: obs_cases(),
           budget={"quick": (8, 120), "thorough": (16, 4000)},
           doc="default observables' apply() on generated states against their definitions"),
    Clause("operators", check_ops, gen=lambda t: op_cases(),
           budget={"quick": (8, 120), "thorough": (16, 4000)},
           doc="operator / state representations and algebra against numpy"),
    Clause("time_matching", check_match, gen=lambda t: match_cases(),
           budget={"quick": (4, 150), "thorough": (16, 3000)},
           doc="evaluation-time matching (0.5 ns tolerance) for sequence durations up to 300 us"),
    Clause("results", check_results, gen=lambda t: res_cases(),
           budget={"quick": (16, 12), "thorough": (16, 300)},
           doc="QutipBackendV2.run(): stored times and values for every observable"),
]
