"""JSON specs -> pulser objects, and the op interpreter (one op = one API call)."""
from __future__ import annotations

from typing import Any

import numpy as np

from pv import env

env.setup()

import pulser  # noqa: E402
from pulser import Pulse, Register, Register3D, Sequence  # noqa: E402
from pulser.channels import DMM, Microwave, Raman, Rydberg  # noqa: E402
from pulser.channels.eom import RydbergBeam, RydbergEOM  # noqa: E402
from pulser.devices import (  # noqa: E402
    AnalogDevice,
    Device,
    DigitalAnalogDevice,
    MockDevice,
    VirtualDevice,
)
from pulser.register.register_layout import RegisterLayout  # noqa: E402
from pulser.waveforms import (  # noqa: E402
    BlackmanWaveform,
    CompositeWaveform,
    ConstantWaveform,
    CustomWaveform,
    InterpolatedWaveform,
    KaiserWaveform,
    RampWaveform,
)

BUILTIN = {
    "MockDevice": MockDevice,
    "AnalogDevice": AnalogDevice,
    "DigitalAnalogDevice": DigitalAnalogDevice,
}
CH_CLS = {"Rydberg": Rydberg, "Raman": Raman, "Microwave": Microwave}
BEAMS = {"BLUE": RydbergBeam.BLUE, "RED": RydbergBeam.RED}


# ------------------------------------------------------------------ channels
def mk_eom(s: dict) -> RydbergEOM:
    return RydbergEOM(
        limiting_beam=BEAMS[s["limiting_beam"]],
        max_limiting_amp=s["max_limiting_amp"],
        intermediate_detuning=s["intermediate_detuning"],
        controlled_beams=tuple(BEAMS[b] for b in s["controlled_beams"]),
        mod_bandwidth=s["mod_bandwidth"],
        custom_buffer_time=s.get("custom_buffer_time"),
        multiple_beam_control=s.get("multiple_beam_control", True),
        blue_shift_coeff=s.get("blue_shift_coeff", 1.0),
        red_shift_coeff=s.get("red_shift_coeff", 1.0),
    )


def mk_channel(s: dict):
    cls = CH_CLS[s["kind"]]
    kw: dict = dict(
        clock_period=s.get("clock_period", 1),
        min_duration=s.get("min_duration", 1),
        max_duration=s.get("max_duration", int(1e8)),
        min_avg_amp=s.get("min_avg_amp", 0),
        mod_bandwidth=s.get("mod_bandwidth"),
        custom_phase_jump_time=s.get("custom_phase_jump_time"),
    )
    if s.get("eom") is not None:
        kw["eom_config"] = mk_eom(s["eom"])
    if s.get("propagation_dir") is not None:
        kw["propagation_dir"] = tuple(s["propagation_dir"])
    if s["addr"] == "Global":
        return cls.Global(s.get("max_abs_detuning"), s.get("max_amp"), **kw)
    return cls.Local(
        s.get("max_abs_detuning"),
        s.get("max_amp"),
        min_retarget_interval=s.get("min_retarget_interval", 0),
        fixed_retarget_t=s.get("fixed_retarget_t", 0),
        max_targets=s.get("max_targets"),
        **kw,
    )


def mk_dmm(s: dict) -> DMM:
    return DMM(
        bottom_detuning=s.get("bottom_detuning"),
        total_bottom_detuning=s.get("total_bottom_detuning"),
        clock_period=s.get("clock_period", 1),
        min_duration=s.get("min_duration", 1),
        max_duration=s.get("max_duration", int(1e8)),
        mod_bandwidth=s.get("mod_bandwidth"),
    )


# ------------------------------------------------------------------ devices
def mk_device(s: dict):
    if s["type"] == "builtin":
        return BUILTIN[s["name"]]
    common: dict = dict(
        name=s.get("name", "GenDevice"),
        dimensions=s.get("dimensions", 3),
        rydberg_level=s.get("rydberg_level", 70),
        min_atom_distance=s.get("min_atom_distance", 0.0),
        max_atom_num=s.get("max_atom_num"),
        max_radial_distance=s.get("max_radial_distance"),
        interaction_coeff_xy=s.get("interaction_coeff_xy", 3700.0),
        supports_slm_mask=s.get("supports_slm_mask", True),
        max_sequence_duration=s.get("max_sequence_duration"),
        channel_objects=tuple(mk_channel(c) for c in s["channels"]),
        dmm_objects=tuple(mk_dmm(d) for d in s.get("dmms", [])),
    )
    if s.get("channel_ids") is not None:
        common["channel_ids"] = tuple(s["channel_ids"])
    for k in ("max_layout_filling", "min_layout_traps", "max_layout_traps",
              "optimal_layout_filling", "max_runs", "requires_layout"):
        if k in s:
            common[k] = s[k]
    if s["type"] == "virtual":
        return VirtualDevice(
            reusable_channels=s.get("reusable_channels", True), **common
        )
    if "accepts_new_layouts" in s:
        common["accepts_new_layouts"] = s["accepts_new_layouts"]
    if s.get("pre_calibrated_layouts"):
        common["pre_calibrated_layouts"] = tuple(
            RegisterLayout(c) for c in s["pre_calibrated_layouts"]
        )
    return Device(**common)


# ------------------------------------------------------------------ registers
def mk_register(s: dict):
    """Returns a Register/Register3D or a MappableRegister."""
    if s.get("mappable"):
        lay = RegisterLayout(s["layout"]["coords"], slug=s["layout"].get("slug"))
        if s.get("mids"):
            from pulser.register.mappable_reg import MappableRegister

            return MappableRegister(lay, *s["mids"])
        return lay.make_mappable_register(s["mappable"], prefix=s.get("prefix", "q"))
    if s.get("layout") is not None:
        lay = RegisterLayout(s["layout"]["coords"], slug=s["layout"].get("slug"))
        return lay.define_register(*s["layout"]["trap_ids"], qubit_ids=s["ids"])
    cls = Register3D if s["dim"] == 3 else Register
    return cls({q: np.array(c, dtype=float) for q, c in zip(s["ids"], s["coords"])})


def register_qubit_ids(s: dict) -> list:
    if s.get("mappable"):
        if s.get("mids"):
            return list(s["mids"])
        return [f"{s.get('prefix', 'q')}{i}" for i in range(s["mappable"])]
    return list(s["ids"])


# ------------------------------------------------------------------ waveforms
def mk_wf(s: dict):
    """s["kw"]: pass the value parameters by keyword (a different code path of ParamObj)."""
    k = s["k"]
    kwd = bool(s.get("kw"))
    if k == "const":
        return ConstantWaveform(s["d"], value=s["v"]) if kwd else ConstantWaveform(s["d"], s["v"])
    if k == "ramp":
        return RampWaveform(s["d"], start=s["a"], stop=s["b"]) if kwd else RampWaveform(s["d"], s["a"], s["b"])
    if k == "blackman":
        return BlackmanWaveform(s["d"], area=s["area"]) if kwd else BlackmanWaveform(s["d"], s["area"])
    if k == "blackman_max":
        if kwd:
            return BlackmanWaveform.from_max_val(max_val=s["max"], area=s["area"])
        return BlackmanWaveform.from_max_val(s["max"], s["area"])
    if k == "kaiser":
        if kwd:
            extra = {"beta": s["beta"]} if "beta" in s else {}
            return KaiserWaveform(s["d"], area=s["area"], **extra)
        if "beta" in s:
            return KaiserWaveform(s["d"], s["area"], s["beta"])
        return KaiserWaveform(s["d"], s["area"])
    if k == "kaiser_max":
        if kwd:
            extra = {"beta": s["beta"]} if "beta" in s else {}
            return KaiserWaveform.from_max_val(max_val=s["max"], area=s["area"], **extra)
        if "beta" in s:
            return KaiserWaveform.from_max_val(s["max"], s["area"], s["beta"])
        return KaiserWaveform.from_max_val(s["max"], s["area"])
    if k == "interp":
        kw = {}
        if s.get("times") is not None:
            kw["times"] = s["times"]
        if s.get("interp") and s["interp"] != "PchipInterpolator":
            kw["interpolator"] = s["interp"]
        kw.update(s.get("ikw") or {})  # extra keyword arguments of the interpolator
        if kwd:
            return InterpolatedWaveform(s["d"], values=s["values"], **kw)
        return InterpolatedWaveform(s["d"], s["values"], **kw)
    if k == "custom":
        return CustomWaveform(s["samples"])
    if k == "composite":
        return CompositeWaveform(*[mk_wf(p) for p in s["parts"]])
    raise env.HarnessError(f"unknown waveform spec {k}")


def mk_pulse(s: dict):
    k = s["k"]
    pps = s.get("pps", 0.0)
    if s.get("kw"):
        extra_kw = {} if ("pps" not in s) else {"post_phase_shift": pps}
        if k == "pulse":
            return Pulse(amplitude=mk_wf(s["amp"]), detuning=mk_wf(s["det"]), phase=s["phase"], **extra_kw)
        if k == "const_pulse":
            return Pulse.ConstantPulse(duration=s["d"], amplitude=s["amp"], detuning=s["det"],
                                       phase=s["phase"], **extra_kw)
        if k == "const_det":
            return Pulse.ConstantDetuning(amplitude=mk_wf(s["amp"]), detuning=s["det"], phase=s["phase"],
                                          **extra_kw)
        if k == "const_amp":
            return Pulse.ConstantAmplitude(amplitude=s["amp"], detuning=mk_wf(s["det"]), phase=s["phase"],
                                           **extra_kw)
        if k == "arb_phase":
            return Pulse.ArbitraryPhase(amplitude=mk_wf(s["amp"]), phase=mk_wf(s["phase_wf"]), **extra_kw)
    extra = () if ("pps" not in s) else (pps,)
    if k == "pulse":
        return Pulse(mk_wf(s["amp"]), mk_wf(s["det"]), s["phase"], *extra)
    if k == "const_pulse":
        return Pulse.ConstantPulse(s["d"], s["amp"], s["det"], s["phase"], *extra)
    if k == "const_det":
        return Pulse.ConstantDetuning(mk_wf(s["amp"]), s["det"], s["phase"], *extra)
    if k == "const_amp":
        return Pulse.ConstantAmplitude(s["amp"], mk_wf(s["det"]), s["phase"], *extra)
    if k == "arb_phase":
        return Pulse.ArbitraryPhase(mk_wf(s["amp"]), mk_wf(s["phase_wf"]), *extra)
    raise env.HarnessError(f"unknown pulse spec {k}")


# ------------------------------------------------------------------ programs
class Interp:
    """Interprets op records against a live Sequence."""

    def __init__(self, prog: dict, register=None, values=None):
        """register: a concrete register to use instead of the program's
        (qubit references still resolve against the program's declared ids);
        values: name -> value, evaluate expressions directly (no variables)."""
        self.prog = prog
        self.device = mk_device(prog["device"])
        self.register = mk_register(prog["register"]) if register is None else register
        self.qids = register_qubit_ids(prog["register"])
        if values is not None:
            self.values = values
        self.seq = Sequence(self.register, self.device)
        self.vars: dict = {}

    # -- reference resolution (robust to shrinking)
    def chan(self, i: Any) -> str:
        if isinstance(i, str):
            return i
        names = list(self.seq.declared_channels)
        return names[i % len(names)] if names else "undeclared"

    def dmm(self, i: Any) -> str:
        if isinstance(i, str):
            return i
        names = [n for n in self.seq.declared_channels if n.startswith("dmm_")]
        return names[i % len(names)] if names else "dmm_0"

    def qubit(self, i: Any):
        if isinstance(i, str):
            return i
        return self.qids[i % len(self.qids)]

    def device_cid(self, i: Any) -> str:
        if isinstance(i, str):
            return i
        ids = list(self.device.channels)
        return ids[i % len(ids)] if ids else "none"

    def dmm_id(self, i: Any) -> str:
        if isinstance(i, str):
            return i
        ids = list(self.device.dmm_channels)
        return ids[i % len(ids)] if ids else "dmm_0"

    def detmap(self, op: dict):
        w = op["weights"]
        if self.prog["register"].get("mappable"):
            lay = self.register.layout
            n = lay.number_of_traps
            return lay.define_detuning_map({i: w[i % len(w)] for i in range(n)})
        wm = {q: w[i % len(w)] for i, q in enumerate(self.qids)}
        return self.register.define_detuning_map(wm)

    def resolve(self, op: dict) -> dict:
        """Replaces expression specs by Parametrized objects (symbolic mode) or
        by their value under self.values (direct mode)."""
        if not has_expr(op):
            return op
        envv = self.vars if self.values is None else self.values
        sym = self.values is None

        def walk(x):
            if isinstance(x, dict):
                if "var" in x or "fn" in x or "cast" in x:
                    return ev_expr(x, envv, sym)
                return {k: walk(v) for k, v in x.items()}
            if isinstance(x, list):
                return [walk(v) for v in x]
            return x

        return {k: (walk(v) if k not in ("op", "style") else v) for k, v in op.items()}

    values = None  # name -> plain value: evaluate expressions directly

    def call(self, op: dict):
        """Returns (method_name, args, kwargs) for one op record."""
        op = self.resolve(op)
        o = op["op"]
        kwstyle = op.get("style") == "kw"
        if o == "declare_var":
            kw = {}
            if op.get("size") is not None:
                kw["size"] = op["size"]
            if op.get("dtype") == "int":
                kw["dtype"] = int
            return "declare_variable", (op["name"],), kw
        if o == "declare":
            it = op.get("initial_target")
            if it is not None:
                it = [self.qubit(q) for q in it]
                if op.get("it_scalar") and len(it) == 1:
                    it = it[0]
            cid = self.device_cid(op["cid"])
            if kwstyle:
                return "declare_channel", (), dict(
                    name=op["name"], channel_id=cid, initial_target=it)
            if it is None and not op.get("it_explicit"):
                return "declare_channel", (op["name"], cid), {}
            if op.get("style") == "pos3":
                return "declare_channel", (op["name"], cid, it), {}
            return "declare_channel", (op["name"], cid), dict(initial_target=it)
        if o == "detmap":
            dm = self.detmap(op)
            if kwstyle:
                return "config_detuning_map", (), dict(
                    detuning_map=dm, dmm_id=self.dmm_id(op["dmm"]))
            return "config_detuning_map", (dm, self.dmm_id(op["dmm"])), {}
        if o == "slm":
            qs = [self.qubit(q) for q in op["qubits"]]
            if op.get("as_set"):
                qs = set(qs)
            if "dmm" not in op:
                return "config_slm_mask", (qs,), {}
            if kwstyle:
                return "config_slm_mask", (), dict(
                    qubits=qs, dmm_id=self.dmm_id(op["dmm"]))
            return "config_slm_mask", (qs, self.dmm_id(op["dmm"])), {}
        if o == "magfield":
            if kwstyle:
                return "set_magnetic_field", (), dict(
                    bx=op["b"][0], by=op["b"][1], bz=op["b"][2])
            return "set_magnetic_field", tuple(op["b"]), {}
        if o in ("target", "target_index"):
            if o == "target_index" and not isinstance(op["qubits"], list):
                # a Parametrized / array / scalar given as such
                q0 = op["qubits"]
                if kwstyle:
                    return o, (), dict(qubits=q0, channel=self.chan(op["ch"]))
                return o, (q0, self.chan(op["ch"])), {}
            if o == "target":
                qs = [self.qubit(q) for q in op["qubits"]]
            else:
                qs = [q % len(self.qids) if not op.get("raw") else q
                      for q in op["qubits"]]
            q: Any = qs
            if op.get("scalar") and len(qs) == 1:
                q = qs[0]
            elif op.get("as_set"):
                q = set(qs)
            if kwstyle:
                return o, (), dict(qubits=q, channel=self.chan(op["ch"]))
            return o, (q, self.chan(op["ch"])), {}
        if o == "add":
            p = mk_pulse(op["pulse"])
            ch = self.chan(op["ch"])
            if kwstyle:
                kw = dict(pulse=p, channel=ch)
                if "protocol" in op:
                    kw["protocol"] = op["protocol"]
                return "add", (), kw
            if "protocol" in op:
                if op.get("style") == "pos3":
                    return "add", (p, ch, op["protocol"]), {}
                return "add", (p, ch), dict(protocol=op["protocol"])
            return "add", (p, ch), {}
        if o == "add_eom":
            ch = self.chan(op["ch"])
            kw = {}
            for src, dst in (("pps", "post_phase_shift"), ("protocol", "protocol"),
                             ("cpd", "correct_phase_drift")):
                if src in op:
                    kw[dst] = op[src]
            if kwstyle:
                return "add_eom_pulse", (), dict(
                    channel=ch, duration=op["d"], phase=op["phase"], **kw)
            if op.get("style") == "pos3" and kw:
                # every given optional argument positionally (defaults fill the gaps)
                full = [op.get("pps", 0.0), op.get("protocol", "min-delay"), op.get("cpd", False)]
                last = max(i for i, k in enumerate(("pps", "protocol", "cpd")) if k in op)
                return "add_eom_pulse", (ch, op["d"], op["phase"], *full[:last + 1]), {}
            return "add_eom_pulse", (ch, op["d"], op["phase"]), kw
        if o == "add_dmm":
            wf = mk_wf(op["wf"])
            name = self.dmm(op["dmm"])
            kw = {}
            if "protocol" in op:
                kw["protocol"] = op["protocol"]
            if kwstyle:
                return "add_dmm_detuning", (), dict(waveform=wf, dmm_name=name, **kw)
            if op.get("style") == "pos3" and "protocol" in op:
                return "add_dmm_detuning", (wf, name, op["protocol"]), {}
            return "add_dmm_detuning", (wf, name), kw
        if o == "delay":
            ch = self.chan(op["ch"])
            kw = {}
            if "at_rest" in op:
                kw["at_rest"] = op["at_rest"]
            if kwstyle:
                return "delay", (), dict(duration=op["d"], channel=ch, **kw)
            if kw and op.get("style") == "pos3":
                return "delay", (op["d"], ch, op["at_rest"]), {}
            return "delay", (op["d"], ch), kw
        if o == "align":
            chs = tuple(self.chan(c) for c in op["chs"])
            kw = {}
            if op.get("at_rest") is not None:
                kw["at_rest"] = op["at_rest"]
            return "align", chs, kw
        if o in ("phase_shift", "phase_shift_index"):
            if o == "phase_shift":
                qs = tuple(self.qubit(q) for q in op["qubits"])
            else:
                qs = tuple(q % len(self.qids) if not op.get("raw") else q
                           for q in op["qubits"])
            kw = {}
            if op.get("basis") is not None:
                kw["basis"] = op["basis"]
            if kwstyle and not qs:
                return o, (), dict(phi=op["phi"], **kw)
            return o, (op["phi"],) + qs, kw
        if o in ("enable_eom", "modify_eom"):
            name = "enable_eom_mode" if o == "enable_eom" else "modify_eom_setpoint"
            ch = self.chan(op["ch"])
            kw = {}
            if "opt_off" in op:
                kw["optimal_detuning_off"] = op["opt_off"]
            if "cpd" in op:
                kw["correct_phase_drift"] = op["cpd"]
            if kwstyle:
                return name, (), dict(
                    channel=ch, amp_on=op["amp_on"], detuning_on=op["det_on"], **kw)
            if op.get("style") == "pos3" and kw:
                extra = [op.get("opt_off", 0.0)] + ([op["cpd"]] if "cpd" in op else [])
                return name, (ch, op["amp_on"], op["det_on"], *extra), {}
            return name, (ch, op["amp_on"], op["det_on"]), kw
        if o == "disable_eom":
            ch = self.chan(op["ch"])
            kw = {}
            if "cpd" in op:
                kw["correct_phase_drift"] = op["cpd"]
            if kwstyle:
                return "disable_eom_mode", (), dict(channel=ch, **kw)
            if op.get("style") == "pos3" and "cpd" in op:
                return "disable_eom_mode", (ch, op["cpd"]), {}
            return "disable_eom_mode", (ch,), kw
        if o == "measure":
            if "basis" not in op:
                return "measure", (), {}
            if kwstyle:
                return "measure", (), dict(basis=op["basis"])
            return "measure", (op["basis"],), {}
        raise env.HarnessError(f"unknown op {o}")

    def apply(self, op: dict, seq=None):
        """Issue the op. Returns ('ok', None) or ('raised', exc)."""
        seq = self.seq if seq is None else seq
        try:
            name, args, kwargs = self.call(op)
        except env.HarnessError:
            raise
        except Exception as e:  # constructing the argument failed (bad pulse...)
            return ("raised_arg", e)
        try:
            res = getattr(seq, name)(*args, **kwargs)
        except Exception as e:  # noqa: BLE001 - outcome, judged by the caller
            return ("raised", e)
        if name == "declare_variable":
            self.vars[op["name"]] = res
        return ("ok", None)


def run_program(prog: dict):
    """Runs all ops; returns (interp, outcomes)."""
    it = Interp(prog)
    out = []
    for op in prog["ops"]:
        out.append(it.apply(op)[0])
    return it, out


# ------------------------------------------------------------------ variables
import math as _math  # noqa: E402

_UN = {
    "neg": lambda a: -a, "abs": abs, "ceil": None, "floor": None, "round": round,
}


def _np_fn(name):
    import numpy as _np

    return {"sqrt": _np.sqrt, "exp": _np.exp, "log": _np.log, "log2": _np.log2,
            "sin": _np.sin, "cos": _np.cos, "tan": _np.tan, "tanh": _np.tanh,
            "ceil": _np.ceil, "floor": _np.floor}[name]


def ev_expr(e, env_, symbolic: bool):
    """Evaluates an expression spec. symbolic=True builds a pulser Parametrized
    from declared variables (env_: name -> Variable/VariableItem); symbolic=False
    computes the plain value (env_: name -> number or list)."""
    if isinstance(e, list):
        return [ev_expr(x, env_, symbolic) for x in e]
    if not isinstance(e, dict):
        return e
    if "var" in e:
        v = env_[e["var"]]
        if e.get("idx") is not None:
            v = v[e["idx"]]
        if e.get("slice") is not None:
            v = v[slice(*e["slice"])]
        return v
    if "cast" in e:
        a = ev_expr(e["a"], env_, symbolic)
        return a if symbolic else (int(a) if e["cast"] == "int" else float(a))
    f = e["fn"]
    a = ev_expr(e["a"], env_, symbolic)
    if "b" in e:
        b = ev_expr(e["b"], env_, symbolic)
        if e.get("swap"):
            a, b = b, a
        return {
            "add": lambda: a + b, "sub": lambda: a - b, "mul": lambda: a * b,
            "div": lambda: a / b, "floordiv": lambda: a // b,
            "mod": lambda: a % b, "pow": lambda: a ** b,
        }[f]()
    if f == "neg":
        return -a
    if f == "abs":
        return abs(a)
    if f == "round":
        return round(a) if symbolic else float(_np_round(a))
    if symbolic:
        import math as _m

        if f == "ceil":
            return _m.ceil(a)
        if f == "floor":
            return _m.floor(a)
        return getattr(a, f)()
    return float(_np_fn(f)(a))


def _np_round(a):
    import numpy as _np

    return _np.round(a)


def has_expr(x) -> bool:
    if isinstance(x, dict):
        return ("var" in x) or ("fn" in x) or ("cast" in x) or any(has_expr(v) for v in x.values())
    if isinstance(x, list):
        return any(has_expr(v) for v in x)
    return False
