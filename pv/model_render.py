"""M4 reference renderer: from the slot list to per-channel and per-atom arrays."""
from __future__ import annotations

import numpy as np

from pv import env

env.setup()

from pulser import Pulse  # noqa: E402
from pulser.channels.dmm import DMM  # noqa: E402

from pv.history import is_detuned_delay  # noqa: E402


def _a(x):
    return np.asarray(x.as_array(detach=True) if hasattr(x, "as_array") else x, dtype=float)


def atom_weights(seq, cs) -> dict:
    """Own nearest-trap lookup (|d| <= 1e-6 per coordinate); 0 if none."""
    dm = cs.detuning_map
    traps = np.asarray(dm.trap_coordinates, dtype=float)
    w = np.asarray(dm.weights, dtype=float)
    out = {}
    for q, pos in seq.register.qubits.items():
        p = _a(pos)
        tot = 0.0
        for t, wt in zip(traps, w):
            if len(t) == len(p) and np.all(np.abs(t - p) <= 1e-6):
                tot += float(wt)
        out[q] = tot
    return out


class ChanRender:
    def __init__(self, seq, name, cs):
        self.name = name
        self.obj = cs.channel_obj
        self.basis = self.obj.basis
        self.is_dmm = isinstance(self.obj, DMM)
        self.addressing = self.obj.addressing
        self.slots = list(cs.slots)
        self.T = int(self.slots[-1].tf) if self.slots else 0
        T = self.T
        self.amp = np.zeros(T)
        self.det = np.zeros(T)
        self.phase = np.full(T, np.nan)  # defined inside real pulses only
        self.pulses = []
        for s in self.slots:
            if isinstance(s.type, Pulse):
                self.amp[s.ti:s.tf] += _a(s.type.amplitude.samples)
                self.det[s.ti:s.tf] += _a(s.type.detuning.samples)
                real = not is_detuned_delay(s.type)
                if real:
                    self.phase[s.ti:s.tf] = float(s.type.phase)
                self.pulses.append((int(s.ti), int(s.tf), set(s.targets), s.type, real))
        self.blocks = [(int(b.ti), None if b.tf is None else int(b.tf),
                        float(_a(b.detuning_off).reshape(-1)[0])) for b in cs.eom_blocks]
        self.in_eom = bool(self.blocks) and self.blocks[-1][1] is None
        self.weights = atom_weights(seq, cs) if self.is_dmm else None


def render(seq) -> dict:
    return {n: ChanRender(seq, n, cs) for n, cs in seq._schedule.items()}


def xy_mask_end(chans: dict) -> int | None:
    """End of the first pulse of the global channel that starts earliest."""
    best = None
    for c in chans.values():
        if c.addressing != "Global" or c.is_dmm:
            continue
        for (ti, tf, tg, p, real) in c.pulses:
            if not real:
                continue
            if best is None or ti < best[0]:
                best = (ti, tf)
            break
    return None if best is None else best[1]


def per_atom(seq, chans: dict, T: int, classes=("Global", "Local", "DMM")):
    """Per (basis, atom): amp, det (DMM weighted), phase (nan unless exactly one
    non-zero-amplitude pulse acts), count of non-zero-amplitude pulses acting.
    `classes` restricts which channels contribute."""
    qids = list(seq.register.qubit_ids)
    in_xy = bool(seq._in_xy)
    masked = set(seq._slm_mask_targets) if in_xy else set()
    mend = xy_mask_end(chans) if masked else None
    out: dict = {}
    for c in chans.values():
        cls = "DMM" if c.is_dmm else c.addressing
        if cls not in classes:
            continue
        b = out.setdefault(c.basis, {})
        for q in qids:
            b.setdefault(q, dict(amp=np.zeros(T), det=np.zeros(T),
                                 phase=np.full(T, np.nan), n=np.zeros(T, dtype=int),
                                 phsum=np.zeros(T)))
        for (ti, tf, tg, p, real) in c.pulses:
            a = _a(p.amplitude.samples)
            d = _a(p.detuning.samples)
            for q in tg:
                if q not in b:
                    continue
                t0 = ti
                if q in masked and mend is not None:
                    t0 = max(ti, min(mend, tf))
                if t0 >= tf:
                    continue
                sl = slice(t0, tf)
                off = t0 - ti
                w = c.weights.get(q, 0.0) if c.is_dmm else 1.0
                e = b[q]
                e["amp"][sl] += a[off:]
                e["det"][sl] += d[off:] * w
                nz = (a[off:] != 0).astype(int)
                e["n"][sl] += nz
                e["phsum"][sl] += nz * float(p.phase)
    for b in out.values():
        for e in b.values():
            one = e["n"] == 1
            e["phase"][one] = e["phsum"][one]
    return out
