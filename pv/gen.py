"""Hypothesis strategies for specs (channels, devices, registers, waveforms, pulses)
and for programs (op lists). All outputs are JSON-serialisable.
"""
from __future__ import annotations

import math

from hypothesis import strategies as st

TWO_PI = 2 * math.pi
# VirtualDevice(max_abs_detuning set, max_amp None) fails in its spec text
# (C12 finding); history generators avoid it while it is unfixed.
AVOID_SPEC_TEXT_BUG = False
# properties about finite samples (C01, C16) switch this on in their own process
DEGENERATE_WF = False
INTERP_KWARGS = False  # set by props.c16
PROTOCOLS = ["min-delay", "no-delay", "wait-for-all"]


def around(draw, L: float, scale: float = 1.0):
    """Boundary-biased value near a limit L (inside, at, and outside)."""
    nxt_up = math.nextafter(L, math.inf)
    nxt_dn = math.nextafter(L, -math.inf)
    return draw(st.sampled_from([
        L, nxt_up, nxt_dn, L + 4e-7, L - 4e-7, L + 6e-7, L - 6e-7,
        L + 1e-6, L - 1e-6, L + 2e-6, L - 2e-6, L * (1 + 1e-3), L * (1 - 1e-3),
        L * 0.5, L * 0.9, L * 1.5,
    ]))


def fl(lo, hi):
    return st.floats(lo, hi, allow_nan=False, allow_infinity=False).map(
        lambda x: round(x, 6)
    )


# ------------------------------------------------------------------ channels
@st.composite
def eom_specs(draw):
    cb = draw(st.sampled_from([["BLUE"], ["RED"], ["BLUE", "RED"], ["RED", "BLUE"]]))
    s = dict(
        limiting_beam=draw(st.sampled_from(["BLUE", "RED"])),
        max_limiting_amp=draw(st.sampled_from([30 * TWO_PI, 40 * TWO_PI, 10 * TWO_PI])),
        intermediate_detuning=draw(st.sampled_from([450 * TWO_PI, 700 * TWO_PI, 100 * TWO_PI])),
        controlled_beams=cb,
        mod_bandwidth=draw(st.sampled_from([20, 40, 100])),
    )
    if draw(st.booleans()):
        s["custom_buffer_time"] = draw(st.sampled_from([240, 100, 37, 3, 2, 1]))
    if draw(st.booleans()):
        s["multiple_beam_control"] = draw(st.booleans())
    if draw(st.integers(0, 3)) == 0:
        s["blue_shift_coeff"] = draw(st.sampled_from([1.1, 0.8, 2.0]))
    if draw(st.integers(0, 3)) == 0:
        s["red_shift_coeff"] = draw(st.sampled_from([1.1, 0.8, 2.0]))
    return s


@st.composite
def channel_specs(draw, kind=None, addr=None, physical=False, eom=None,
                  bandwidth=None, simple_timing=False):
    kind = kind or draw(st.sampled_from(["Rydberg", "Rydberg", "Raman"]))
    addr = addr or draw(st.sampled_from(["Global", "Local"]))
    s: dict = dict(kind=kind, addr=addr)
    if simple_timing:
        s["clock_period"] = draw(st.sampled_from([1, 4]))
        s["min_duration"] = draw(st.sampled_from([1, 16]))
    else:
        s["clock_period"] = draw(st.sampled_from([1, 1, 2, 3, 4, 4, 8, 16]))
        s["min_duration"] = draw(st.sampled_from([1, 1, 4, 5, 16, 16, 20, 52]))
    md = draw(st.sampled_from(["none", "small", "big", "default"]))
    if physical and md == "none":
        md = "big"
    if md == "none":
        s["max_duration"] = None
    elif md == "small":
        s["max_duration"] = s["min_duration"] + draw(st.sampled_from([0, 1, 50, 203, 1000]))
    elif md == "big":
        s["max_duration"] = 2**26
    if bandwidth is None:
        bw = draw(st.sampled_from([None, None, 1.5, 4, 8, 8, 20, 40, 150, 480]))
    else:
        bw = draw(st.sampled_from(bandwidth))
    if bw is not None:
        s["mod_bandwidth"] = bw
    if draw(st.integers(0, 3)) == 0:
        s["custom_phase_jump_time"] = draw(st.sampled_from([0, 20, 300]))
    if draw(st.integers(0, 4)) == 0:
        s["min_avg_amp"] = draw(st.sampled_from([0.5, 1.0]))
    amp_lim = draw(st.sampled_from([None, 5.0, TWO_PI * 2, TWO_PI * 2.5, 15.0]))
    det_lim = draw(st.sampled_from([None, 20.0, TWO_PI * 20, 40.0, None, 20.0, TWO_PI * 20, 40.0, 0.0]))
    # (0.0: a defined limit that allows resonant pulses only)
    if physical:
        amp_lim = amp_lim or TWO_PI * 2
        det_lim = det_lim or TWO_PI * 20
    if AVOID_SPEC_TEXT_BUG and det_lim is not None and amp_lim is None:
        amp_lim = 15.0
    s["max_amp"] = amp_lim
    s["max_abs_detuning"] = det_lim
    if addr == "Local":
        s["min_retarget_interval"] = draw(st.sampled_from([0, 0, 50, 220]))
        s["fixed_retarget_t"] = draw(st.sampled_from([0, 0, 10, 100]))
        mt = draw(st.sampled_from([None, 1, 2, 5]))
        if physical and mt is None:
            mt = 2
        s["max_targets"] = mt
    want_eom = eom if eom is not None else (draw(st.integers(0, 2)) == 0)
    if kind == "Rydberg" and s.get("mod_bandwidth") and want_eom:
        s["eom"] = draw(eom_specs())
    return s


@st.composite
def dmm_specs(draw, physical=False):
    s: dict = dict(
        clock_period=draw(st.sampled_from([1, 4])),
        min_duration=draw(st.sampled_from([1, 16])),
    )
    bd = draw(st.sampled_from([None, -20.0, -TWO_PI * 20, -5.0]))
    tbd = draw(st.sampled_from([None, -TWO_PI * 2000, -60.0, -30.0]))
    if physical:
        bd = bd or -TWO_PI * 20
        tbd = tbd or -TWO_PI * 2000
        s["max_duration"] = 2**26
    else:
        if draw(st.booleans()):
            s["max_duration"] = None
    if bd is not None and tbd is not None and bd < tbd:
        tbd = bd * 3
    s["bottom_detuning"] = bd
    s["total_bottom_detuning"] = tbd
    if draw(st.integers(0, 3)) == 0:
        s["mod_bandwidth"] = draw(st.sampled_from([4, 8, 20]))
    return s


# ------------------------------------------------------------------ devices
@st.composite
def device_specs(draw, mode="ising", allow_builtin=True, force_type=None,
                 channels=None, max_seq=None, n_channels=(1, 4), chan_kw=None,
                 allow_dmm=True, n_dmm=(0, 2)):
    """mode: 'ising' | 'xy' | 'mixed' (both kinds of channel on the device)."""
    chan_kw = chan_kw or {}
    t = force_type or draw(st.sampled_from(
        ["virtual"] * 6 + ["physical"] * 2 + (["builtin"] if allow_builtin else [])
    ))
    if t == "builtin":
        names = ["MockDevice", "DigitalAnalogDevice", "AnalogDevice"]
        if mode == "xy":
            names = ["MockDevice"]
        return dict(type="builtin", name=draw(st.sampled_from(names)))
    physical = t == "physical"
    s: dict = dict(type=t, name="GenDev")
    if channels is None:
        n = draw(st.integers(*n_channels))
        chs = []
        for i in range(n):
            if mode == "xy" or (mode == "mixed" and i == 0):
                c = draw(channel_specs(kind="Microwave", addr="Global",
                                       physical=physical, **chan_kw))
            else:
                c = draw(channel_specs(physical=physical, **chan_kw))
            chs.append(c)
        channels = chs
    s["channels"] = channels
    if draw(st.integers(0, 4)) == 0:
        s["channel_ids"] = [f"cid{i}" for i in range(len(channels))]
    nd = draw(st.integers(*n_dmm)) if allow_dmm else 0
    s["dmms"] = [draw(dmm_specs(physical=physical)) for _ in range(nd)]
    s["supports_slm_mask"] = bool(nd) and draw(st.booleans())
    s["dimensions"] = 3
    s["rydberg_level"] = draw(st.sampled_from([50, 60, 70, 85, 100]))
    s["min_atom_distance"] = draw(st.sampled_from([0.0, 1.0, 4.0]))
    if physical:
        s["max_atom_num"] = 50
        s["max_radial_distance"] = 60
    else:
        s["reusable_channels"] = draw(st.booleans())
    if max_seq is None:
        msd = draw(st.sampled_from([None, None, None, 600, 2000, 6000]))
    else:
        msd = draw(st.sampled_from(max_seq))
    if msd is not None:
        s["max_sequence_duration"] = msd
    return s


# ------------------------------------------------------------------ registers
ID_POOL = ["q0", "q1", "q2", "q3", "q4", "q5", "a", "b", "atom7", "10", "x y"]
ID_CONCAT = ["1", "11", "12", "2", "a", "aa", "ab", "b"]


@st.composite
def register_specs(draw, n=(1, 6), dim=None, layout=None, mappable=False,
                   ids=None, spacing=5.0, int_ids=False, tiny_noise=False):
    dim = dim or draw(st.sampled_from([2, 2, 3]))
    k = draw(st.integers(*n))
    pts = []
    seen = set()
    while len(pts) < k:
        g = tuple(draw(st.integers(-3, 3)) for _ in range(dim))
        if g in seen:
            continue
        seen.add(g)
        jitter = draw(st.sampled_from([0.0, 0.0, 0.3, -0.7]))
        pt = [gi * spacing + (jitter if j == 0 else 0.0) for j, gi in enumerate(g)]
        if tiny_noise:
            # numerical noise below the 1e-6 um precision (what rotating a register leaves behind)
            pt = [v + draw(st.sampled_from([0.0, 0.0, 3e-9, -2e-9, 4e-7, -4e-7])) for v in pt]
        pts.append(pt)
    if ids is None:
        id_kind = draw(st.sampled_from(["q", "q", "pool", "q", "q", "pool", "concat"]))
        id_kind_pool = id_kind == "pool"
        if id_kind == "q":
            idl = [f"q{i}" for i in range(k)]
        elif id_kind == "concat":
            # labels whose concatenations coincide ("1"+"12" == "11"+"2")
            idl = list(draw(st.permutations(ID_CONCAT)))[:k]
        else:
            idl = list(draw(st.permutations(ID_POOL)))[:k]
    else:
        idl = ids[:k]
        id_kind_pool = False
    if int_ids and (int_ids >= 2 or draw(st.integers(0, 2)) == 0):
        # integer labels 0..k-1 in a permuted order (labels that look like positions)
        idl = list(draw(st.permutations(list(range(k)))))
        if draw(st.integers(0, 3)) == 0:
            idl = list(draw(st.permutations([1, 11, 12, 2, 0, 21, 112])))[:k]
    use_layout = layout if layout is not None else (draw(st.integers(0, 3)) == 0)
    s: dict = dict(dim=dim, ids=idl, coords=pts)
    if use_layout or mappable:
        extra = []
        n_extra = k + draw(st.integers(0, 3))
        while len(extra) < n_extra:
            g = tuple(draw(st.integers(-4, 4)) for _ in range(dim))
            if g in seen:
                continue
            seen.add(g)
            extra.append([gi * spacing for gi in g])
        lay_coords = pts + extra
        perm = draw(st.permutations(list(range(len(lay_coords)))))
        lay_coords = [lay_coords[i] for i in perm]
        # canonical trap ids of the register's points
        import numpy as np

        arr = np.round(np.array(lay_coords, dtype=float), 6)
        order = sorted(range(len(arr)), key=lambda i: tuple(arr[i]))
        pos = {tuple(arr[i]): n_ for n_, i in enumerate(order)}
        trap_ids = [pos[tuple(np.round(np.array(p, dtype=float), 6))] for p in pts]
        s["layout"] = dict(coords=lay_coords, trap_ids=trap_ids)
        s["coords"] = [list(map(float, np.round(np.array(p, dtype=float), 6))) for p in pts]
        if mappable:
            s["mappable"] = k
            s["prefix"] = "q"
            if id_kind_pool and draw(st.booleans()):
                # ids declared in a non-sorted order (MappableRegister(layout, *ids))
                s["mids"] = [str(i) for i in idl]
                s["ids"] = list(s["mids"])
            else:
                s["ids"] = [f"q{i}" for i in range(k)]
    return s


# ------------------------------------------------------------------ waveforms
def _dur(draw, cs, fault=False):
    lo = cs.get("min_duration", 1)
    clk = cs.get("clock_period", 1)
    hi = cs.get("max_duration", 10**8)
    if fault:
        opts = [0, lo - 1 if lo > 1 else -4]
        if lo > 1:
            opts += [lo - 1, max(1, lo // 2)]
        if hi is not None and hi < 10**6:
            opts += [hi + clk, hi + clk, hi + 1]
        return draw(st.sampled_from(opts))
    cands = {lo, lo + 1, lo + clk, 16, 17, 52, 100, 200, 203, 400, 1000}
    if lo <= 3:
        cands |= {1, 2, 3, 4, 5}
    cands |= {((lo + clk - 1) // clk) * clk, ((lo + clk - 1) // clk + 3) * clk}
    if hi is not None and hi < 10**6:
        cands |= {hi, hi - 1, (hi // clk) * clk}
    cands = sorted(c for c in cands if c >= lo and (hi is None or c <= hi) and c <= 2000)
    if not cands:
        cands = [lo]
    return draw(st.sampled_from(cands))


def _amp_val(draw, cs, fault=False):
    lim = cs.get("max_amp")
    if lim is None:
        return draw(st.sampled_from([0.0, 1.0, TWO_PI, 10.0]) | fl(0, 15))
    if fault:
        return draw(st.sampled_from([lim * 1.01, lim + 1e-6, lim * 2]))
    r = draw(st.integers(0, 9))
    if r <= 1:
        v = around(draw, lim)
        return min(v, lim)  # stay valid unless fault
    if r == 2:
        return 0.0
    return draw(fl(0, lim))


def _det_val(draw, cs, fault=False):
    lim = cs.get("max_abs_detuning")
    sign = draw(st.sampled_from([1, -1]))
    if lim is None:
        return sign * draw(st.sampled_from([0.0, 1.0, 5.0, 30.0]) | fl(0, 40))
    if fault:
        return sign * draw(st.sampled_from([lim * 1.01, lim + 2e-6, lim * 2]))
    r = draw(st.integers(0, 9))
    if r <= 1:
        v = around(draw, lim)
        return sign * min(v, lim + 4e-7)
    if r == 2:
        return 0.0
    return sign * draw(fl(0, lim))


@st.composite
def waveform_specs(draw, d, lo, hi, nonneg=False, depth=0, kinds=None,
                   changeable=False):
    """A waveform of duration d with values in [lo, hi] (by construction);
    one in three passes its value parameters by keyword."""
    out = draw(_waveform_specs(d, lo, hi, nonneg, depth, kinds, changeable))
    if out["k"] not in ("custom", "composite") and draw(st.integers(0, 2)) == 0:
        out["kw"] = True
    return out


@st.composite
def _waveform_specs(draw, d, lo, hi, nonneg=False, depth=0, kinds=None,
                    changeable=False):
    pool = kinds or ["const", "const", "ramp", "blackman", "kaiser", "interp",
                     "custom", "composite"]
    if changeable:
        pool = [k for k in pool if k not in ("custom", "composite")]
    if d < 2:
        pool = [k for k in pool if k in ("const", "custom", "blackman", "kaiser")]
        if DEGENERATE_WF and not changeable:
            pool = pool + ["ramp"]  # RampWaveform(1, a, b): slope is 0/0
    if d < 3:
        # Blackman(2) is 0/0 -> only generated where non-finite samples are the subject
        pool = [k for k in pool if k != "blackman" or (DEGENERATE_WF and d == 2)]
    if d > 400:
        pool = [k for k in pool if k != "custom"]
    if depth >= 1 or d < 4:
        pool = [k for k in pool if k != "composite"]
    k = draw(st.sampled_from(pool))
    v = lambda: draw(fl(lo, hi))  # noqa: E731
    if k == "const":
        return dict(k="const", d=d, v=v())
    if k == "ramp":
        return dict(k="ramp", d=d, a=v(), b=v())
    if k in ("blackman", "kaiser"):
        # peak = area*1e3/sum(window) <= max(|lo|,|hi|) -> bound the area
        import numpy as np

        w = np.blackman(d) if k == "blackman" else np.kaiser(d, 14.0)
        ssum = float(np.sum(np.clip(w, 0, None)))
        if ssum <= 0 and DEGENERATE_WF:
            return dict(k=k, d=d, area=1.0 if hi > 0 else -1.0)
        peak_hi = hi if hi > 0 else 0.0
        peak_lo = lo if lo < 0 else 0.0
        a_hi = peak_hi * ssum / 1e3 / max(float(np.max(w)), 1e-12) if ssum > 0 else 0.0
        a_lo = peak_lo * ssum / 1e3 / max(float(np.max(w)), 1e-12) if ssum > 0 else 0.0
        if a_hi - a_lo < 1e-9:
            return dict(k="const", d=d, v=v())
        area = draw(fl(a_lo, a_hi))
        if abs(area) < 1e-9:
            area = a_hi if a_hi > 0 else a_lo
        out = dict(k=k, d=d, area=area)
        if k == "kaiser" and draw(st.booleans()):
            out["beta"] = 14.0
        return out
    if k == "interp":
        n = draw(st.integers(2, 5))
        if d < 2 * n:
            n = max(2, d // 2)
        vals = [v() for _ in range(n)]
        out = dict(k="interp", d=d, values=vals)
        if draw(st.booleans()) and d >= 40:
            times = sorted({0.0, 1.0} | {round(draw(st.floats(0.05, 0.95)), 3) for _ in range(n - 2)})
            # interpolation points must fall on distinct samples: the constructor refuses
            # two times that round to the same ns
            if len(times) == n and len({round(t * (d - 1)) for t in times}) == n:
                out["times"] = times
        if INTERP_KWARGS and (INTERP_KWARGS >= 2 or draw(st.integers(0, 2)) == 0):
            # scipy's interp1d with an explicit kind (not exportable: only where waveforms
            # themselves are the subject)
            kinds_ok = ["linear", "previous", "nearest"] + (["quadratic"] if n >= 3 else []) + (
                ["cubic"] if n >= 4 else [])
            out["interp"] = "interp1d"
            out["ikw"] = {"kind": draw(st.sampled_from(kinds_ok))}
            if out.get("times") and draw(st.booleans()):
                # (time, value) pairs given in another order: interp1d sorts them together
                order = draw(st.permutations(list(range(len(out["times"])))))
                out["times"] = [out["times"][i] for i in order]
                out["values"] = [out["values"][i] for i in order]
        return out
    if k == "custom":
        n = d
        return dict(k="custom", samples=[v() for _ in range(n)])
    if k == "composite":
        d1 = draw(st.integers(1, d - 1))
        return dict(k="composite", parts=[
            draw(waveform_specs(d1, lo, hi, nonneg, depth + 1)),
            draw(waveform_specs(d - d1, lo, hi, nonneg, depth + 1)),
        ])
    return dict(k="const", d=d, v=v())


PHASES = [0.0, 0.0, math.pi / 2, math.pi, 1.0, -1.0, 7.0, TWO_PI, 3 * math.pi, 0.25]


@st.composite
def pulse_specs(draw, cs, fault=None, simple=False, changeable=False):
    """A pulse intended for channel spec cs. fault in {None,'duration','amp','det'}."""
    d = _dur(draw, cs, fault == "duration")
    amp_hi = _amp_val(draw, cs, fault == "amp")
    det_m = _det_val(draw, cs, fault == "det")
    phase = draw(st.sampled_from(PHASES) | fl(-10, 10))
    kind = draw(st.sampled_from(
        ["const_pulse"] * (6 if simple else 3) + ["const_det", "const_amp", "pulse"]
    ))
    if d <= 0 or fault in ("amp", "det"):
        kind = "const_pulse"
    clk = cs.get("clock_period", 1)
    need_change = changeable or (d % clk != 0)
    out: dict
    if kind == "const_pulse":
        out = dict(k="const_pulse", d=d, amp=amp_hi, det=det_m, phase=phase)
    elif kind == "const_det":
        out = dict(k="const_det",
                   amp=draw(waveform_specs(d, 0.0, amp_hi, True, changeable=need_change)),
                   det=det_m, phase=phase)
    elif kind == "const_amp":
        lo, hi = (min(0.0, det_m), max(0.0, det_m))
        out = dict(k="const_amp", amp=amp_hi,
                   det=draw(waveform_specs(d, lo, hi, changeable=need_change)),
                   phase=phase)
    else:
        lo, hi = (-abs(det_m), abs(det_m))
        out = dict(k="pulse",
                   amp=draw(waveform_specs(d, 0.0, amp_hi, True, changeable=need_change)),
                   det=draw(waveform_specs(d, lo, hi, changeable=need_change)),
                   phase=phase)
    if draw(st.integers(0, 3)) == 0:
        out["pps"] = draw(st.sampled_from([0.0, math.pi, -1.0, 0.5, TWO_PI, 9.0]))
    if draw(st.integers(0, 3)) == 0:
        out["kw"] = True  # constructor arguments by keyword
    return out


# ------------------------------------------------------------------ programs
class GState:
    """Light model of the sequence used only to steer generation."""

    def __init__(self, dev: dict, reg: dict):
        self.dev = dev
        self.reg = reg
        self.nq = reg.get("mappable") or len(reg["ids"])
        self.declared: list[dict] = []  # {name, cs, dmm, eom, target}
        self.used_cids: set = set()
        self.used_dmm: set = set()
        self.measured = False
        self.slm = False
        self.names = 0
        self.xy = False
        self.ising = False

    def channels(self):
        if self.dev["type"] == "builtin":
            return BUILTIN_SPECS[self.dev["name"]]["channels"]
        return self.dev["channels"]

    def dmms(self):
        if self.dev["type"] == "builtin":
            return BUILTIN_SPECS[self.dev["name"]]["dmms"]
        return self.dev.get("dmms", [])

    def reusable(self):
        if self.dev["type"] == "builtin":
            return self.dev["name"] == "MockDevice"
        return self.dev["type"] == "virtual" and self.dev.get("reusable_channels", True)


BUILTIN_SPECS = {
    "MockDevice": dict(
        channels=[
            dict(kind="Rydberg", addr="Global", max_amp=None, max_abs_detuning=None, max_duration=None),
            dict(kind="Rydberg", addr="Local", max_amp=None, max_abs_detuning=None, max_duration=None, max_targets=None),
            dict(kind="Raman", addr="Global", max_amp=None, max_abs_detuning=None, max_duration=None),
            dict(kind="Raman", addr="Local", max_amp=None, max_abs_detuning=None, max_duration=None, max_targets=None),
            dict(kind="Microwave", addr="Global", max_amp=None, max_abs_detuning=None, max_duration=None),
        ],
        dmms=[dict(bottom_detuning=None, total_bottom_detuning=None)],
    ),
    "DigitalAnalogDevice": dict(
        channels=[
            dict(kind="Rydberg", addr="Global", max_amp=TWO_PI * 2.5, max_abs_detuning=TWO_PI * 20,
                 clock_period=4, min_duration=16, max_duration=2**26),
            dict(kind="Rydberg", addr="Local", max_amp=TWO_PI * 10, max_abs_detuning=TWO_PI * 20,
                 clock_period=4, min_duration=16, max_duration=2**26, max_targets=1,
                 min_retarget_interval=220, fixed_retarget_t=0),
            dict(kind="Raman", addr="Local", max_amp=TWO_PI * 10, max_abs_detuning=TWO_PI * 20,
                 clock_period=4, min_duration=16, max_duration=2**26, max_targets=1,
                 min_retarget_interval=220, fixed_retarget_t=0),
        ],
        dmms=[dict(bottom_detuning=-TWO_PI * 20, total_bottom_detuning=-TWO_PI * 2000,
                   clock_period=4, min_duration=16, max_duration=2**26)],
    ),
    "AnalogDevice": dict(
        channels=[
            dict(kind="Rydberg", addr="Global", max_amp=TWO_PI * 2, max_abs_detuning=TWO_PI * 20,
                 clock_period=4, min_duration=16, max_duration=10**8, mod_bandwidth=8,
                 eom=dict(limiting_beam="RED", max_limiting_amp=30 * TWO_PI,
                          intermediate_detuning=450 * TWO_PI, mod_bandwidth=40,
                          controlled_beams=["BLUE"], custom_buffer_time=240)),
        ],
        dmms=[],
    ),
}


def _qsel(draw, S: GState, lo=1, hi=None):
    hi = hi or S.nq
    k = draw(st.integers(lo, max(lo, min(hi, S.nq))))
    return list(draw(st.permutations(list(range(S.nq)))))[:k]


def draw_op(draw, S: GState, P: dict):
    """Draws one op record and updates the light model optimistically."""
    # (high draws are faults: the minimal, all-zero choice sequence stays fault-free)
    fault = draw(st.integers(0, 99)) >= 100 - P.get("fault_pct", 0)
    nonlocal_decl = [i for i, c in enumerate(S.declared) if not c["dmm"]]
    dmm_decl = [i for i, c in enumerate(S.declared) if c["dmm"]]
    kinds = []
    w = P.get("weights", {})

    def W(name, default):
        return w.get(name, default)

    chans = S.channels()
    if len(nonlocal_decl) < P.get("max_channels", 4) and chans:
        kinds += ["declare"] * (W("declare", 6) if len(nonlocal_decl) < P.get("min_channels", 2) else W("declare_more", 1))
    if S.dmms() and P.get("dmm", True) and len(dmm_decl) < 2 and not S.xy:
        kinds += ["detmap"] * W("detmap", 1)
    if P.get("slm", True) and not S.slm and S.dmms() and not S.reg.get("mappable"):
        kinds += ["slm"] * W("slm", 1)
    if nonlocal_decl:
        kinds += ["add"] * W("add", 8)
        kinds += ["delay"] * W("delay", 2)
        kinds += ["phase_shift"] * W("phase_shift", 2)
        if any(S.declared[i]["cs"]["addr"] == "Local" for i in nonlocal_decl):
            kinds += ["target"] * W("target", 3)
        if len(S.declared) >= 2:
            kinds += ["align"] * W("align", 2)
        if P.get("eom", True) and any(S.declared[i]["cs"].get("eom") for i in nonlocal_decl):
            kinds += ["eom"] * W("eom", 5)
        if P.get("measure", True):
            kinds += ["measure"] * W("measure", 1)
    if dmm_decl:
        kinds += ["add_dmm"] * W("add_dmm", 3)
    if P.get("magfield", False) and not S.declared:
        kinds += ["magfield"]
    if fault and S.declared:
        kinds = ["fault"]
    if not kinds:
        kinds = ["declare"]
    # the minimal choice (first element) is what Hypothesis' simplest examples take:
    # make it a plain add rather than a re-declaration
    kinds.sort(key=lambda k: k != "add")
    kind = draw(st.sampled_from(kinds))
    # "pos3": optional arguments are given positionally as well
    style = draw(st.sampled_from(["pos", "pos", "kw", "pos3"]))

    def pick(idx_list):
        return draw(st.sampled_from(idx_list))

    if kind == "declare":
        cid = draw(st.integers(0, len(chans) - 1))
        if not S.reusable():
            free = [i for i in range(len(chans)) if i not in S.used_cids]
            if free and draw(st.integers(0, 9)) < 9:
                cid = draw(st.sampled_from(free))
        # avoid XY/ising mixing most of the time
        cs = chans[cid]
        name = f"ch{S.names}"
        if draw(st.integers(0, 19)) == 19 and S.declared:
            name = S.declared[0]["name"]  # name collision (must be refused)
        elif draw(st.integers(0, 29)) == 29 and "" not in [c["name"] for c in S.declared]:
            name = ""  # the empty string is a name like any other
        S.names += 1
        op = dict(op="declare", name=name, cid=cid, style=style)
        tgt = None
        if cs["addr"] == "Local" and draw(st.integers(0, 3)) > 0:
            mt = cs.get("max_targets")
            tgt = _qsel(draw, S, 1, mt or S.nq)
            op["initial_target"] = tgt
            if len(tgt) == 1 and draw(st.booleans()):
                op["it_scalar"] = True
        elif cs["addr"] == "Global" and draw(st.integers(0, 7)) == 0:
            # accepted and ignored on a global channel
            op["initial_target"] = _qsel(draw, S, 1, 1)
            op["it_scalar"] = draw(st.booleans())
        ok_mode = (cs["kind"] == "Microwave" and not S.ising) or (cs["kind"] != "Microwave" and not S.xy)
        if ok_mode and (S.reusable() or cid not in S.used_cids) and name not in [c["name"] for c in S.declared]:
            S.declared.append(dict(name=name, cs=cs, dmm=False, eom=False,
                                   target=(tgt is not None) or cs["addr"] == "Global",
                                   cid=cid))
            S.used_cids.add(cid)
            if cs["kind"] == "Microwave":
                S.xy = True
            else:
                S.ising = True
        return op
    if kind == "detmap":
        nd = len(S.dmms())
        di = draw(st.integers(0, nd - 1))
        weights = [draw(st.sampled_from([0.0, 1.0, 0.5, 0.25]) | fl(0, 1)) for _ in range(S.nq)]
        if not any(weights):
            weights[0] = 1.0
        op = dict(op="detmap", weights=weights, dmm=di, style=style)
        if S.reusable() or di not in S.used_dmm:
            cnt = sum(1 for c in S.declared if c["dmm"] and c["dmm_id"] == di)
            nm = f"dmm_{di}" + (f"_{cnt}" if cnt else "")
            S.declared.append(dict(name=nm, cs=dict(S.dmms()[di], addr="Global", kind="DMM"),
                                   dmm=True, dmm_id=di, eom=False, target=True,
                                   weights=weights))
            S.used_dmm.add(di)
            S.ising = True
        return op
    if kind == "slm":
        op = dict(op="slm", qubits=_qsel(draw, S), style=style)
        if draw(st.booleans()):
            op["dmm"] = draw(st.integers(0, len(S.dmms()) - 1))
        S.slm = True
        return op
    if kind == "magfield" and P.get("fault_pct", 0) and draw(st.integers(0, 3)) == 0:
        # a null field: refused (nothing may remain of the attempt)
        return dict(op="magfield", b=[0.0, 0.0, 0.0], style=style, fault="zero_field")
    if kind == "magfield":
        return dict(op="magfield", b=[draw(fl(-30, 30)), draw(fl(-30, 30)), draw(st.sampled_from([30.0, 0.0, 10.0]))], style=style)
    if kind == "measure":
        bases = sorted({"ground-rydberg" if c["cs"]["kind"] in ("Rydberg", "DMM") else
                        "digital" if c["cs"]["kind"] == "Raman" else "XY"
                        for c in S.declared})
        op = dict(op="measure", basis=draw(st.sampled_from(bases)), style=style)
        if op["basis"] == "ground-rydberg" and draw(st.booleans()):
            del op["basis"]
        if P.get("measure_last", True):
            S.measured = True
        return op
    if kind == "add_dmm":
        i = pick(dmm_decl)
        c = S.declared[i]
        cs = c["cs"]
        d = _dur(draw, cs)
        bd = cs.get("bottom_detuning")
        tbd = cs.get("total_bottom_detuning")
        wts = c.get("weights", [1.0])
        lo = -30.0
        if bd is not None:
            lo = max(lo, bd / max(max(wts), 1e-9))
        if tbd is not None:
            lo = max(lo, tbd / max(sum(wts), 1e-9))
        if draw(st.integers(0, 9)) == 0:
            lo_used = lo * 1.0000001 if draw(st.booleans()) else lo
        else:
            lo_used = lo
        wf = draw(waveform_specs(d, lo_used, 0.0, changeable=(d % cs.get("clock_period", 1) != 0)))
        op = dict(op="add_dmm", dmm=dmm_decl.index(i), wf=wf, style=style)
        if draw(st.booleans()):
            op["protocol"] = draw(st.sampled_from(P.get("protocols", PROTOCOLS)))
        return op
    if kind == "fault":
        return draw_fault(draw, S, P)
    # ops on ordinary channels -------------------------------------------
    if not nonlocal_decl:
        return dict(op="delay", ch=0, d=16)
    i = pick(nonlocal_decl)
    c = S.declared[i]
    cs = c["cs"]
    if kind == "eom":
        eom_ch = [j for j in nonlocal_decl if S.declared[j]["cs"].get("eom")]
        i = pick(eom_ch)
        c = S.declared[i]
        cs = c["cs"]
        if not c["eom"]:
            sub = "enable"
        else:
            sub = draw(st.sampled_from(["add", "add", "add", "delay", "modify", "disable"]))
        if sub in ("enable", "modify"):
            op = dict(op="enable_eom" if sub == "enable" else "modify_eom", ch=i,
                      amp_on=max(_amp_val(draw, cs), 0.1) if cs.get("max_amp") else draw(fl(0.5, 12)),
                      det_on=_det_val(draw, cs) * draw(st.sampled_from([0, 0.1, 0.5])), style=style)
            if draw(st.booleans()):
                op["opt_off"] = draw(st.sampled_from([0.0, -1.0, 5.0, -20.0, 100.0]) | fl(-30, 30))
            if draw(st.booleans()):
                op["cpd"] = draw(st.booleans())
            c["eom"] = True
            return op
        if sub == "disable":
            op = dict(op="disable_eom", ch=i, style=style)
            if draw(st.booleans()):
                op["cpd"] = draw(st.booleans())
            c["eom"] = False
            return op
        if sub == "delay":
            return dict(op="delay", ch=i, d=_dur(draw, cs), style=style)
        op = dict(op="add_eom", ch=i, d=_dur(draw, cs),
                  phase=draw(st.sampled_from(PHASES)), style=style)
        if draw(st.integers(0, 2)) == 0:
            op["pps"] = draw(st.sampled_from([0.0, 1.0, math.pi, -2.5]))
        if draw(st.booleans()):
            op["protocol"] = draw(st.sampled_from(P.get("protocols", PROTOCOLS)))
        if draw(st.booleans()):
            op["cpd"] = draw(st.booleans())
        return op
    if kind == "add":
        if c["eom"]:
            # in EOM mode only EOM pulses are accepted: mostly generate those
            if draw(st.integers(0, 4)) > 0:
                op = dict(op="add_eom", ch=i, d=_dur(draw, cs),
                          phase=draw(st.sampled_from(PHASES)), style=style)
                if draw(st.integers(0, 2)) == 0:
                    op["pps"] = draw(st.sampled_from([0.0, 1.0, math.pi, -2.5]))
                if draw(st.booleans()):
                    op["protocol"] = draw(st.sampled_from(P.get("protocols", PROTOCOLS)))
                if draw(st.booleans()):
                    op["cpd"] = draw(st.booleans())
                return op
        if cs["addr"] == "Local" and not c["target"]:
            mt = cs.get("max_targets")
            c["target"] = True
            return dict(op="target", ch=i, qubits=_qsel(draw, S, 1, mt or S.nq), style=style)
        op = dict(op="add", ch=i, pulse=draw(pulse_specs(cs, simple=P.get("simple_pulses", False))), style=style)
        if draw(st.integers(0, 2)) > 0:
            op["protocol"] = draw(st.sampled_from(P.get("protocols", PROTOCOLS)))
            if op["style"] == "pos" and draw(st.booleans()):
                op["style"] = "pos3"
        return op
    if kind == "delay":
        op = dict(op="delay", ch=draw(st.sampled_from(list(range(len(S.declared))))),
                  d=_dur(draw, S.declared[i]["cs"]), style=style)
        if P.get("frac_delays") and draw(st.integers(0, 2)) == 0:
            # a duration that is not a whole number of ns (accepted with a warning, rounded up)
            op["d"] = op["d"] + draw(st.sampled_from([0.5, 0.25, 0.75]))
        if draw(st.booleans()):
            op["at_rest"] = draw(st.booleans())
        return op
    if kind == "align":
        k = draw(st.integers(2, len(S.declared)))
        chs = list(draw(st.permutations(list(range(len(S.declared))))))[:k]
        op = dict(op="align", chs=chs)
        if draw(st.booleans()):
            op["at_rest"] = draw(st.booleans())
        return op
    if kind == "target":
        loc = [j for j in nonlocal_decl if S.declared[j]["cs"]["addr"] == "Local"]
        i = pick(loc)
        cs = S.declared[i]["cs"]
        mt = cs.get("max_targets")
        S.declared[i]["target"] = True
        op = dict(op=draw(st.sampled_from(["target", "target", "target_index"])),
                  ch=i, qubits=_qsel(draw, S, 1, mt or S.nq), style=style)
        if S.reg.get("mappable"):
            op["op"] = "target"
        if len(op["qubits"]) == 1 and draw(st.booleans()):
            op["scalar"] = True
        return op
    if kind == "phase_shift":
        bases = sorted({"ground-rydberg" if cc["cs"]["kind"] in ("Rydberg", "DMM") else
                        "digital" if cc["cs"]["kind"] == "Raman" else "XY"
                        for cc in S.declared})
        b = draw(st.sampled_from(bases))
        op = dict(op=draw(st.sampled_from(["phase_shift", "phase_shift", "phase_shift_index"])),
                  phi=draw(st.sampled_from([math.pi, -1.0, 0.5, 7.0, TWO_PI, 1e-12, -TWO_PI * 3]
                                           + list(P.get("extra_phases", []))) | fl(-20, 20)),
                  qubits=draw(st.sampled_from(["all", "all", "sub", "sub", "none"])),
                  style=style)
        op["qubits"] = {"all": list(range(S.nq)), "none": []}.get(op["qubits"]) \
            if op["qubits"] != "sub" else _qsel(draw, S)
        if S.reg.get("mappable"):
            op["op"] = "phase_shift"
        if b != "digital" or draw(st.booleans()):
            op["basis"] = b
        return op
    if kind == "fault":
        return draw_fault(draw, S, P)
    return dict(op="delay", ch=0, d=16)


def draw_fault(draw, S: GState, P: dict):
    """An op that must be refused (or at least is allowed to be)."""
    i = draw(st.integers(0, len(S.declared) - 1))
    c = S.declared[i]
    cs = c["cs"]
    kinds = [
        "duration", "amp", "det", "qubit", "too_many_targets", "channel",
        "protocol", "basis", "eom_outside", "add_on_dmm", "delay_bad",
        "long", "align_one", "align_dup", "target_global", "declare_dup",
        "delay_at_rest_short",
    ]
    if c.get("eom") and cs.get("eom"):
        # the channel is in EOM mode: refused EOM controls (they act in several steps)
        kinds += ["eom_modify_bad", "eom_modify_bad", "eom_enable_again", "eom_pulse_bad"]
    f = draw(st.sampled_from(kinds))
    if f == "eom_modify_bad":
        return dict(op="modify_eom", ch=i, amp_on=draw(st.sampled_from([1e5, -1.0, 0.0])),
                    det_on=draw(st.sampled_from([0.0, 1e5])), fault=f)
    if f == "eom_enable_again":
        return dict(op="enable_eom", ch=i, amp_on=1.0, det_on=0.0, fault=f)
    if f == "eom_pulse_bad":
        return dict(op="add_eom", ch=i, d=draw(st.sampled_from([0, -4])), phase=0.0, fault=f)
    if f in ("duration", "amp", "det"):
        return dict(op="add", ch=i, pulse=draw(pulse_specs(cs, fault=f)), fault=f)
    if f == "qubit":
        return dict(op="target", ch=i, qubits=["nope"], fault=f)
    if f == "too_many_targets":
        return dict(op="target", ch=i, qubits=list(range(S.nq)), fault=f)
    if f == "channel":
        return dict(op="delay", ch="ghost", d=16, fault=f)
    if f == "protocol":
        return dict(op="add", ch=i, pulse=draw(pulse_specs(cs, simple=True)),
                    protocol="asap", fault=f)
    if f == "basis":
        return dict(op="phase_shift", phi=1.0, qubits=[0], basis="nope", fault=f)
    if f == "eom_outside":
        return dict(op="add_eom", ch=i, d=_dur(draw, cs), phase=0.0, fault=f)
    if f == "add_on_dmm":
        return dict(op="add", ch=i, pulse=dict(k="const_pulse", d=_dur(draw, cs), amp=0.0, det=-1.0, phase=0.0), fault=f)
    if f == "delay_bad":
        hi = cs.get("max_duration", 10**8)
        big = hi + cs.get("clock_period", 1) if (hi is not None and hi < 10**5) else -7
        return dict(op="delay", ch=i, d=draw(st.sampled_from([-5, 0, big])), fault=f)
    if f == "long":
        return dict(op="delay", ch=i, d=draw(st.sampled_from([5000, 7000])), fault=f)
    if f == "align_one":
        return dict(op="align", chs=[i], fault=f)
    if f == "align_dup":
        return dict(op="align", chs=[i, i], fault=f)
    if f == "target_global":
        return dict(op="target", ch=i, qubits=[0], fault=f)
    if f == "declare_dup":
        return dict(op="declare", name=c["name"], cid=0, fault=f)
    if f == "delay_at_rest_short":
        return dict(op="delay", ch=i, d=max(1, cs.get("min_duration", 1) - 1), at_rest=True, fault=f)
    return dict(op="delay", ch="ghost", d=16, fault="channel")


@st.composite
def programs(draw, profile=None):
    P = dict(profile or {})
    dev = draw(P["device"]) if "device" in P else draw(device_specs())
    reg = draw(P["register"]) if "register" in P else draw(register_specs())
    if dev["type"] == "builtin" and dev["name"] != "MockDevice":
        reg = draw(register_specs(n=(1, 5), dim=2, layout=False, spacing=7.0))
    S = GState(dev, reg)
    n = draw(st.integers(P.get("min_ops", 2), P.get("max_ops", 25)))
    ops = []
    for _ in range(n):
        ops.append(draw_op(draw, S, P))
        if S.measured and draw(st.integers(0, 9)) < P.get("stop_at_measure_p", 7):
            break
    return dict(device=dev, register=reg, ops=ops)
