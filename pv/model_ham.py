"""M5: numpy.kron construction of the documented Hamiltonian (docs/source/conventions.md)."""
from __future__ import annotations

import json
import os

import numpy as np

from pv import env, model_render as mr

env.setup()

STATES_RANK = ["u", "d", "r", "g", "h", "x"]
EIGEN = {"ground-rydberg": ["r", "g"], "digital": ["g", "h"], "XY": ["u", "d"]}
# |a> lower level, |b> higher level of each transition
AB = {"ground-rydberg": ("g", "r"), "digital": ("h", "g"), "XY": ("d", "u")}

_C6 = None


def c6(level: int) -> float:
    global _C6
    if _C6 is None:
        p = os.path.join(env.REPO_ROOT, "pulser-core", "pulser", "devices",
                         "interaction_coefficients", "C6_coeffs.json")
        with open(p) as f:
            _C6 = json.load(f)
    return float(_C6[str(level)])


def used_bases(chans: dict) -> set:
    return {c.basis for c in chans.values() if np.any(c.amp) or np.any(c.det)}


def eigenstates(chans: dict, in_xy: bool) -> list:
    ub = used_bases(chans)
    if not ub:
        st = EIGEN["XY" if in_xy else "ground-rydberg"]
    else:
        st = set()
        for b in ub:
            st |= set(EIGEN[b])
    return [s for s in STATES_RANK if s in st]


def site_op(op: np.ndarray, i: int, n: int, dim: int) -> np.ndarray:
    out = np.array([[1.0 + 0j]])
    for k in range(n):
        out = np.kron(out, op if k == i else np.eye(dim))
    return out


def proj(states: list, a: str, b: str) -> np.ndarray:
    """|a><b| in the documented vector representation."""
    m = np.zeros((len(states), len(states)), dtype=complex)
    m[states.index(a), states.index(b)] = 1.0
    return m


class HamModel:
    def __init__(self, seq):
        self.seq = seq
        self.chans = mr.render(seq)
        self.T = max([c.T for c in self.chans.values()] or [0])
        self.in_xy = bool(seq._in_xy)
        self.states = eigenstates(self.chans, self.in_xy)
        self.dim = len(self.states)
        self.qids = list(seq.register.qubit_ids)
        self.n = len(self.qids)
        reg = seq.register
        self.pos = {}
        for q, p in reg.qubits.items():
            v = np.zeros(3)
            a = np.asarray(p.as_array(), dtype=float)
            v[: len(a)] = a
            self.pos[q] = v
        self.atoms = mr.per_atom(seq, self.chans, self.T)
        self.masked = set(seq._slm_mask_targets) if self.in_xy else set()
        self.mask_end = (mr.xy_mask_end(self.chans) or 0) if self.masked else 0
        self._static = None
        self._ops: dict = {}

    def op(self, i: int, a: str, b: str) -> np.ndarray:
        k = (i, a, b)
        if k not in self._ops:
            self._ops[k] = site_op(proj(self.states, a, b), i, self.n, self.dim)
        return self._ops[k]

    def interaction(self, masked_on: bool) -> np.ndarray:
        D = self.dim ** self.n
        H = np.zeros((D, D), dtype=complex)
        dev = self.seq.device
        if self.in_xy:
            if not {"u", "d"} <= set(self.states):
                return H
            B = np.asarray(self.seq.magnetic_field, dtype=float)
            c3 = float(dev.interaction_coeff_xy)
            for i in range(self.n):
                for j in range(i):
                    qi, qj = self.qids[i], self.qids[j]
                    if masked_on and (qi in self.masked or qj in self.masked):
                        continue
                    r = self.pos[qi] - self.pos[qj]
                    R = np.linalg.norm(r)
                    cos = float(np.dot(r, B) / (R * np.linalg.norm(B)))
                    U = c3 * (1 - 3 * cos ** 2) / R ** 3
                    # sigma+ = |1><0| = |d><u|, sigma- = |u><d|
                    sp_i, sm_i = self.op(i, "d", "u"), self.op(i, "u", "d")
                    sp_j, sm_j = self.op(j, "d", "u"), self.op(j, "u", "d")
                    H += U * (sp_i @ sm_j + sm_i @ sp_j)
            return H
        if "r" not in self.states:
            return H
        C6 = c6(int(dev.rydberg_level))
        for i in range(self.n):
            for j in range(i):
                R = np.linalg.norm(self.pos[self.qids[i]] - self.pos[self.qids[j]])
                H += C6 / R ** 6 * (self.op(i, "r", "r") @ self.op(j, "r", "r"))
        return H

    def at(self, t: int):
        """Returns (H, ignore_mask): ignore_mask marks off-diagonal entries where
        two non-zero pulses act on one (atom, basis) - no documented formula."""
        D = self.dim ** self.n
        H = self.interaction(masked_on=bool(self.masked) and t < self.mask_end).copy()
        ign = np.zeros((D, D), dtype=bool)
        for basis, atoms in self.atoms.items():
            a, b = AB[basis]
            if a not in self.states or b not in self.states:
                # basis addressed by an empty channel only: its states are not
                # part of the space (documented reduction)
                continue
            for i, q in enumerate(self.qids):
                e = atoms.get(q)
                if e is None or t >= len(e["amp"]):
                    continue
                om, de, n = e["amp"][t], e["det"][t], e["n"][t]
                if de:
                    H += -de * self.op(i, b, b)
                if n == 1:
                    ph = e["phase"][t]
                    H += om / 2 * (np.exp(-1j * ph) * self.op(i, a, b)
                                   + np.exp(1j * ph) * self.op(i, b, a))
                elif n >= 2:
                    ign |= (np.abs(self.op(i, a, b)) + np.abs(self.op(i, b, a))) > 0
        return H, ign
