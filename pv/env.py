"""Environment: import the *tree* (never the installed pulser), silence warnings.

Harness errors raise HarnessError -> exit code 2, never a VIOLATION.
"""
from __future__ import annotations

import os
import sys
import warnings

VERIF_ROOT = os.path.dirname(os.path.dirname(os.path.abspath(__file__)))
REPO_ROOT = os.path.abspath(os.environ.get("PV_REPO_ROOT", "/repo"))


class HarnessError(Exception):
    pass


_done = False


def setup() -> None:
    global _done
    if _done:
        return
    os.environ.setdefault("MPLBACKEND", "Agg")
    for sub in ("pulser-simulation", "pulser-core"):
        p = os.path.join(REPO_ROOT, sub)
        if not os.path.isdir(p):
            raise HarnessError(f"missing {p}")
        if p in sys.path:
            sys.path.remove(p)
        sys.path.insert(0, p)
    sys.dont_write_bytecode = True
    warnings.simplefilter("ignore")
    import pulser  # noqa
    import pulser_simulation  # noqa

    for mod in (pulser, pulser_simulation):
        f = os.path.abspath(mod.__file__)
        if not f.startswith(REPO_ROOT + os.sep):
            raise HarnessError(
                f"{mod.__name__} imported from {f}, not from {REPO_ROOT}"
            )
    # pulser installs a "once" filter at import; override it for good.
    warnings.resetwarnings()
    warnings.simplefilter("ignore")
    _done = True


def seed() -> int:
    try:
        return int(os.environ.get("VERIF_SEED", "1"))
    except ValueError:
        return 1
