"""History walker: runs a program op by op and applies per-step oracles.

Reference models living here (independent of the scheduler they judge):
  M1 timeline invariants (C02), M2 start-time model (C03), M3 phase-reference
  model (C07), retarget / phase-jump rules (C10), failed-call atomicity (C09).
The only tree quantity M2 takes as given is Pulse.fall_time (judged by C14).
"""
from __future__ import annotations

import math
from typing import Any, Optional

import numpy as np

from pv import build, env, snapshot as snap
from pv.engine import Ctx

from pulser import Pulse  # noqa: E402
from pulser.channels.dmm import DMM  # noqa: E402
from pulser.waveforms import ConstantWaveform  # noqa: E402

TWO_PI = 2 * math.pi


def circ(a: float, b: float) -> float:
    d = (a - b) % TWO_PI
    return min(d, TWO_PI - d)


def is_detuned_delay(p: Pulse) -> bool:
    return (
        isinstance(p.amplitude, ConstantWaveform)
        and isinstance(p.detuning, ConstantWaveform)
        and float(p.amplitude.samples.as_array()[0]) == 0.0
    )


class ChView:
    __slots__ = ("name", "obj", "slots", "blocks", "in_eom", "is_dmm")

    def __init__(self, name, cs):
        self.name = name
        self.obj = cs.channel_obj
        self.slots = [(s.type, int(s.ti), int(s.tf), frozenset(s.targets)) for s in cs.slots]
        self.blocks = [(int(b.ti), None if b.tf is None else int(b.tf),
                        float(np.asarray(b.rabi_freq.as_array()).reshape(-1)[0]),
                        float(np.asarray(b.detuning_on.as_array()).reshape(-1)[0]),
                        float(np.asarray(b.detuning_off.as_array()).reshape(-1)[0]))
                       for b in cs.eom_blocks]
        self.in_eom = bool(self.blocks) and self.blocks[-1][1] is None
        self.is_dmm = isinstance(self.obj, DMM)

    @property
    def end(self) -> int:
        return self.slots[-1][2] if self.slots else 0

    def slot_in_eom(self, ti: int) -> bool:
        for (bti, btf, *_r) in self.blocks:
            hi = btf if btf is not None else self.end
            if bti <= ti < hi:
                return True
        return False

    def fall(self, slot) -> int:
        p = slot[0]
        return int(p.fall_time(self.obj, in_eom_mode=self.slot_in_eom(slot[1])))

    def end_with_fall(self) -> int:
        e = self.end
        for s in self.slots:
            if isinstance(s[0], Pulse):
                e = max(e, s[2] + self.fall(s))
        return e

    def end_with_fall_last(self, chan_flag: bool) -> int:
        """Only the most recent pulse's tail (the tree's reading of 'pending')."""
        e = self.end
        lp = self.last_pulse()
        if lp is not None:
            f = (int(lp[0].fall_time(self.obj, in_eom_mode=self.in_eom))
                 if chan_flag else self.fall(lp))
            e = max(e, lp[2] + f)
        return e

    def adj(self, x: int) -> int:
        if x <= 0:
            return 0
        clk = self.obj.clock_period
        x = max(x, self.obj.min_duration)
        return -(-x // clk) * clk

    def last_real_pulse(self):
        for s in reversed(self.slots):
            if isinstance(s[0], Pulse) and not is_detuned_delay(s[0]):
                return s
        return None

    def last_pulse(self):
        for s in reversed(self.slots):
            if isinstance(s[0], Pulse):
                return s
        return None


class View:
    def __init__(self, seq):
        self.ch = {n: ChView(n, cs) for n, cs in seq._schedule.items()}
        self.parametrized = seq.is_parametrized()


class PhaseModel:
    """M3: per (basis, qubit) running sum of shifts and bookkeeping times."""

    def __init__(self):
        self.sum: dict = {}
        self.last_shift_t: dict = {}
        self.last_shift_nz: dict = {}
        self.last_used: dict = {}
        self.nshifts: dict = {}

    def ensure(self, basis, qids):
        for q in qids:
            k = (basis, q)
            if k not in self.sum:
                self.sum[k] = 0.0
                self.last_shift_t[k] = 0
                self.last_used[k] = 0
                self.nshifts[k] = 0

    def shift(self, basis, q, phi):
        """last_shift_t counts every registered shift (also zero-valued ones,
        which the statement does not require to act as a barrier);
        last_shift_nz only those that change the reference."""
        k = (basis, q)
        self.sum[k] = (self.sum[k] + phi) % TWO_PI
        self.last_shift_t[k] = max(self.last_shift_t[k], self.last_used[k])
        if circ(phi % TWO_PI, 0.0) > 1e-12:
            self.last_shift_nz[k] = max(self.last_shift_nz.get(k, 0), self.last_used[k])
            self.nshifts[k] += 1

    def used(self, basis, q, tf):
        k = (basis, q)
        self.last_used[k] = max(self.last_used[k], tf)


def basis_of(obj) -> str:
    return obj.basis


def quick_state(seq) -> tuple:
    """Cheap state signature used to notice partial effects of refused calls."""
    ch = tuple(
        (n, tuple((id(s.type) if isinstance(s.type, Pulse) else s.type, s.ti, s.tf,
                   frozenset(s.targets)) for s in cs.slots),
         tuple((b.ti, b.tf) for b in cs.eom_blocks),
         getattr(cs, "_waiting_for_first_pulse", None))
        for n, cs in seq._schedule.items()
    )
    refs = tuple(
        (b, q, tuple(r.phase._times), tuple(r.phase._phases), r.last_used)
        for b, d in seq._basis_ref.items() for q, r in d.items()
    )
    return (ch, refs, seq.is_parametrized(), seq.is_measured(), len(seq._calls),
            len(seq._to_build_calls), tuple(seq._variables), seq._slm_mask_dmm,
            frozenset(seq._slm_mask_targets), seq._in_xy, seq._in_ising,
            seq._mag_field, seq._empty_sequence)


class Walker:
    """Executes a program and applies the clause sets selected in `props`."""

    aborted = False

    def __init__(self, prog: dict, ctx: Ctx, props: set):
        self.prog = prog
        self.ctx = ctx
        self.props = props
        self.it = build.Interp(prog)
        self.seq = self.it.seq
        self.pm = PhaseModel()
        self.stats = dict(ok=0, raised=0, auto_delay=0, rounding=0, conflicts=0,
                          align_fall=0, pj=0, retarget=0, shifts_between=0,
                          late_fail=0, fail_after3=0, steps=0, eom=0, dmm=0,
                          nt_c03=0, nt_c10=0, nt_c07=0)
        self._snap_cache: dict = {}

    # ------------------------------------------------------------------ run
    def run(self):
        ctx = self.ctx
        seq = self.seq
        for k, op in enumerate(self.prog["ops"]):
            self.stats["steps"] += 1
            ctx.steps += 1
            pre = View(seq)
            pre_q = quick_state(seq)
            pre_snap = snap.snapshot(seq) if "C09" in self.props else None
            est = None
            if {"C03"} & self.props and not pre.parametrized:
                est = self._estimate(op, pre)
            pre_refs = self._refs()
            # "possible barrier": time of the last shift the tree registered
            # (also zero-valued ones, which the statement does not require to
            # act as a barrier); sanity-bounded by the model below
            self.pre_shift_t = {
                (b, q): int(r.phase.last_time)
                for b, d in seq._basis_ref.items() for q, r in d.items()}
            self.pre_last_used = dict(self.pm.last_used)
            self.pre_shift_nz = dict(self.pm.last_shift_nz)
            self.pre_nshifts = dict(self.pm.nshifts)
            status, exc = self.it.apply(op)
            if status == "ok":
                self.stats["ok"] += 1
                post = View(seq)
                self._update_phase_model(op, pre, post)
                self._resolve_drift(pre_refs)
                if "TARGETS" in self.props:
                    self.check_targets(op, post)
                if "C01" in self.props:
                    self.check_c01(op, pre, post)
                if "C15" in self.props:
                    self.check_c15(op, pre, post)
                if "C02" in self.props:
                    self.check_c02(op, pre, post)
                if "C03" in self.props:
                    self.check_c03(op, pre, post, est)
                if "C10" in self.props:
                    self.check_c10(op, pre, post)
                if "C07" in self.props:
                    self.check_c07(op, pre, post, pre_refs)
                if "C09" in self.props and (k % 4 == 1 or k == len(self.prog["ops"]) - 1):
                    self.check_c09_readonly(op, k, heavy=(k % 8 == 1 and self.ctx.tier == "thorough"))
            else:
                self.stats["raised"] += 1
                if status == "raised" and "C09" in self.props:
                    self.check_c09_atomic(op, pre_snap, exc, k)
                elif status == "raised" and quick_state(seq) != pre_q:
                    # partial effect of a refused call: that is C09's subject;
                    # the state is no longer "the effect of successful calls",
                    # so the other properties stop judging this history here.
                    self.stats["aborted_partial_effect"] = 1
                    self.aborted = True
                    break
        return self

    # ------------------------------------------------------------------ helpers
    def _refs(self):
        out = {}
        for b, d in self.seq._basis_ref.items():
            for q, r in d.items():
                out[(b, q)] = float(r.phase.last_phase)
        return out

    def _new_slots(self, pre: View, post: View, name: str):
        a = pre.ch[name].slots if name in pre.ch else []
        b = post.ch[name].slots
        return b[len(a):]

    def _op_channel(self, op) -> Optional[str]:
        if op["op"] == "add_dmm":
            return self.it.dmm(op["dmm"])
        if "ch" in op:
            return self.it.chan(op["ch"])
        return None

    def check_targets(self, op, post: View):
        """After a successful target() / target_index() the channel addresses exactly the atoms that
        were asked for (judged from the call, not from the slot the tree wrote)."""
        if op["op"] not in ("target", "target_index") or post.parametrized:
            return
        name = self._op_channel(op)
        if name is None or name not in post.ch:
            return
        qs = op.get("qubits")
        if not isinstance(qs, (list, tuple)) or any(isinstance(q, dict) for q in qs):
            return
        want = {self.it.qubit(q) for q in qs}
        got = set(post.ch[name].slots[-1][3]) if post.ch[name].slots else set()
        if {str(x) for x in got} != {str(x) for x in want}:
            self.ctx.fail("C06.atom", "targets_after_retarget",
                          f"{op['op']}({sorted(map(str, want))}) on {name!r} succeeded; the channel now addresses "
                          f"{sorted(map(str, got))}")

    # ------------------------------------------------------------------ M3
    def _update_phase_model(self, op, pre: View, post: View):
        pm = self.pm
        qids = list(self.it.qids)
        for n, cv in post.ch.items():
            pm.ensure(basis_of(cv.obj), qids)
        o = op["op"]
        if post.parametrized:
            return
        if o in ("phase_shift", "phase_shift_index"):
            basis = op.get("basis", "digital")
            if o == "phase_shift":
                qs = [self.it.qubit(q) for q in op["qubits"]]
            else:
                qs = [qids[q % len(qids)] for q in op["qubits"]]
            if not qs:
                qs = qids
            for q in set(qs):
                pm.shift(basis, q, float(op["phi"]))
            return
        name = self._op_channel(op)
        if name is None or name not in post.ch:
            return
        cv = post.ch[name]
        basis = basis_of(cv.obj)
        new = self._new_slots(pre, post, name)
        if o in ("add", "add_eom", "add_dmm"):
            # only explicitly added pulses (and the automatic SLM-mask DMM pulse
            # they may trigger) mark an atom as used; EOM buffers do not
            for n2, cv2 in post.ch.items():
                nw = self._new_slots(pre, post, n2)
                if nw and isinstance(nw[-1][0], Pulse):
                    for q in nw[-1][3]:
                        pm.used(basis_of(cv2.obj), q, nw[-1][2])
        if o in ("add", "add_eom") and not cv.is_dmm:
            pulses = [s for s in new if isinstance(s[0], Pulse)]
            if pulses:
                s = pulses[-1]
                pps = float(s[0].post_phase_shift)
                cpd = bool(op.get("cpd")) and o == "add_eom"
                if cpd:
                    # value of the drift correction is C15's subject; C07 takes
                    # the observed uniform shift (checked for uniformity below)
                    self._pending_drift = (basis, set(s[3]), False)
                elif pps != 0.0:
                    for q in s[3]:
                        pm.shift(basis, q, pps)
        if o in ("enable_eom", "modify_eom", "disable_eom") and op.get("cpd"):
            tg = cv.slots[-1][3] if cv.slots else frozenset()
            self._pending_drift = (basis, set(tg), True)

    def _resolve_drift(self, pre_refs):
        """EOM drift corrections: the value is C15's subject; here the observed
        shift is taken, and it must be the same on all targets of the channel."""
        pend = self._pending_drift
        self._pending_drift = None
        if pend is None:
            return
        pm = self.pm
        post_refs = self._refs()
        basis, tg, always = pend
        deltas = {q: (post_refs[(basis, q)] - pre_refs.get((basis, q), 0.0)) % TWO_PI
                  for q in tg if (basis, q) in post_refs}
        vals = list(deltas.values())
        if "C07" in self.props and vals and max(circ(v, vals[0]) for v in vals) > 1e-9:
            self.ctx.fail("C07.sum", "drift_correction_not_uniform", f"{deltas}")
        for q, v in deltas.items():
            # a pulse's total shift (post-phase-shift minus drift) registers
            # only when non-zero; EOM enable/modify/disable corrections always
            # total shift of a drift-corrected pulse: registered by the tree
            # iff non-zero, which the observed (float-absorbed) delta cannot
            # always tell -> a *possible* barrier (last_shift_t), a certain
            # one (last_shift_nz) only when the reference visibly changed
            pm.shift(basis, q, v)

    # ------------------------------------------------------------------ C01
    def atom_weights(self, cs) -> dict:
        """Own nearest-trap lookup (|d| <= 1e-6 per coordinate)."""
        dm = cs.detuning_map
        traps = np.asarray(dm.trap_coordinates, dtype=float)
        w = np.asarray(dm.weights, dtype=float)
        out = {}
        reg = self.seq._register
        if not hasattr(reg, "qubits"):
            return {}
        for q, pos in reg.qubits.items():
            p = np.asarray(pos.as_array() if hasattr(pos, "as_array") else pos, dtype=float)
            tot = 0.0
            for t, wt in zip(traps, w):
                if len(t) == len(p) and np.all(np.abs(t - p) <= 1e-6):
                    tot += float(wt)
            out[q] = tot
        return out

    def check_c01(self, op, pre: View, post: View):
        ctx = self.ctx
        C = "C01.sound"
        if post.parametrized:
            return
        dev = self.seq.device
        for name, cv in post.ch.items():
            new = self._new_slots(pre, post, name)
            obj = cv.obj
            for s in new:
                if not isinstance(s[0], Pulse):
                    continue
                p = s[0]
                amp = np.asarray(p.amplitude.samples.as_array(), dtype=float)
                det = np.asarray(p.detuning.samples.as_array(), dtype=float)
                self.stats["c01_pulses"] = self.stats.get("c01_pulses", 0) + 1
                how = op["op"]
                if not (np.all(np.isfinite(amp)) and np.all(np.isfinite(det))):
                    ctx.fail(C, f"non_finite_samples:{type(p.amplitude).__name__}/{type(p.detuning).__name__}",
                             f"{name}: scheduled pulse has non-finite samples ({how})")
                if np.any(amp < 0):
                    ctx.fail(C, "negative_amplitude", f"{name} ({how})")
                if obj.max_amp is not None and np.any(amp > obj.max_amp):
                    ctx.fail(C, f"amp>max_amp:{how}",
                             f"{name}: max amp {amp.max()!r} > {obj.max_amp!r}")
                avg = float(np.mean(amp))
                if obj.min_avg_amp and 0 < avg < obj.min_avg_amp * (1 - 1e-12):
                    ctx.fail(C, f"avg_amp<min:{how}", f"{name}: {avg} < {obj.min_avg_amp}")
                if cv.is_dmm:
                    if np.any(det > 5e-7):
                        ctx.fail(C, f"dmm_positive_detuning:{how}", f"{name}: {det.max()}")
                    wts = self.atom_weights(self.seq._schedule[name])
                    if wts:
                        mw = max(wts.values())
                        sw = sum(wts.values())
                        md = float(det.min())
                        if obj.bottom_detuning is not None and mw * md < obj.bottom_detuning - 5e-7 * max(mw, 1):
                            ctx.fail(C, f"below_bottom_detuning:{how}",
                                     f"{name}: {mw}*{md} < {obj.bottom_detuning}")
                        if (obj.total_bottom_detuning is not None
                                and sw * md < obj.total_bottom_detuning - 5e-7 * max(sw, 1)):
                            ctx.fail(C, f"below_total_bottom_detuning:{how}",
                                     f"{name}: {sw}*{md} < {obj.total_bottom_detuning}")
                elif obj.max_abs_detuning is not None and np.any(
                        np.abs(det) > obj.max_abs_detuning + 5e-7):
                    ctx.fail(C, f"det>max_abs_detuning:{how}",
                             f"{name}: {np.abs(det).max()!r} > {obj.max_abs_detuning!r}")
                d = s[2] - s[1]
                if d <= 0 or d % obj.clock_period:
                    ctx.fail(C, f"duration_not_clock_multiple:{how}", f"{name}: {d} / {obj.clock_period}")
                if d < obj.min_duration:
                    ctx.fail(C, f"duration<min:{how}", f"{name}: {d} < {obj.min_duration}")
                if obj.max_duration is not None and d > obj.max_duration:
                    ctx.fail(C, f"duration>max:{how}",
                             f"{name}: scheduled pulse lasts {d} > max_duration {obj.max_duration}")
        msd = dev.max_sequence_duration
        if msd is not None:
            tot = max([cv.end for cv in post.ch.values()] or [0])
            if tot > msd:
                ctx.fail(C, f"sequence>max_sequence_duration:{op['op']}", f"{tot} > {msd}")
            if tot > msd - 600:
                self.stats["near_max_seq"] = 1

    # ------------------------------------------------------------------ C15
    def check_c15(self, op, pre: View, post: View):
        ctx = self.ctx
        if post.parametrized:
            return
        o = op["op"]
        name = self._op_channel(op)
        if name is None or name not in post.ch or name not in pre.ch:
            return
        cv0, cv1 = pre.ch[name], post.ch[name]
        new = self._new_slots(pre, post, name)
        obj = cv1.obj
        if o in ("enable_eom", "modify_eom"):
            self.stats["eom"] += 1
            blk = cv1.blocks[-1]
            req = float(op.get("opt_off", 0.0))
            self.check_det_off(obj, float(op["amp_on"]), float(op["det_on"]), req, blk[4], name)
            if abs(blk[2] - float(op["amp_on"])) > 1e-12 or abs(blk[3] - float(op["det_on"])) > 1e-12:
                ctx.fail("C15.setpoint", "block_setpoint", f"{blk} vs {op}")
            buf_t = int(obj.eom_config.custom_buffer_time or 2 * obj.rise_time)
            if cv0.end > 0:
                if not new:
                    ctx.fail("C15.buffer", f"{o}:no_buffer", f"{name}: no buffer inserted")
                    return
                b = new[-1]
                if b[2] - b[1] != cv0.adj(buf_t):
                    ctx.fail("C15.buffer", f"{o}:length",
                             f"{name}: buffer lasts {b[2]-b[1]}, configured {buf_t} -> {cv0.adj(buf_t)}")
                lp = cv0.last_pulse()
                if o == "enable_eom" and lp is not None:
                    need = lp[2] + min(cv0.fall(lp), int(lp[0].fall_time(obj, in_eom_mode=False)))
                    if b[1] < need:
                        ctx.fail("C15.buffer", "enable_eom:before_ramp_down",
                                 f"{name}: buffer starts {b[1]} < {need}")
                # detuning during the entry buffer is the new off-detuning
                det_buf = (float(b[0].detuning.samples.as_array()[0]) if isinstance(b[0], Pulse) else 0.0)
                amp_buf = (float(np.max(np.abs(b[0].amplitude.samples.as_array()))) if isinstance(b[0], Pulse) else 0.0)
                if abs(det_buf - blk[4]) > 1e-12 or amp_buf != 0.0:
                    ctx.fail("C15.buffer", f"{o}:detuning_during_buffer",
                             f"{name}: buffer detuning {det_buf}, off-detuning {blk[4]}")
                if blk[0] != b[2]:
                    ctx.fail("C15.buffer", f"{o}:block_start", f"block starts {blk[0]}, buffer ends {b[2]}")
            elif new:
                ctx.fail("C15.buffer", f"{o}:buffer_on_empty_channel", f"{new}")
        if o == "disable_eom":
            blk = cv1.blocks[-1]
            if blk[1] != cv0.end:
                ctx.fail("C15.buffer", "disable:block_end", f"{blk[1]} != {cv0.end}")
            # a custom buffer time is "the wait time to enforce during EOM buffers":
            # its length is what is required; otherwise the exit buffer must
            # cover the ramp-down of the last real pulse
            lp = cv0.last_real_pulse()
            need = cv0.end
            if lp is not None and not obj.eom_config.custom_buffer_time:
                need = max(need, lp[2] + min(cv0.fall(lp), int(lp[0].fall_time(obj, in_eom_mode=True)),
                                             int(lp[0].fall_time(obj, in_eom_mode=False))))
            # second admissible reading (as for align / get_duration, §9 #3): only the most
            # recent pulse slot - here possibly an idle EOM slot, a zero-amplitude "pulse" -
            # has its fall time counted
            lps = cv0.last_pulse()
            if lp is not None and lps is not None and lps is not lp and not obj.eom_config.custom_buffer_time:
                need = min(need, max(cv0.end, lps[2] + min(
                    cv0.fall(lps), int(lps[0].fall_time(obj, in_eom_mode=True)),
                    int(lps[0].fall_time(obj, in_eom_mode=False)))))
            if obj.eom_config.custom_buffer_time:
                need2 = cv0.end + cv0.adj(int(obj.eom_config.custom_buffer_time))
                if cv1.end != need2:
                    ctx.fail("C15.buffer", "disable:custom_buffer_length",
                             f"{name}: ends {cv1.end}, expected {need2}")
            if cv1.end < need:
                ctx.fail("C15.buffer", "disable:before_ramp_down", f"{name}: ends {cv1.end} < {need}")
            for s in new:
                if isinstance(s[0], Pulse):
                    ctx.fail("C15.buffer", "disable:pulse_in_exit_buffer", "")
        if o in ("add_eom", "delay") and cv0.in_eom and new:
            blk = cv0.blocks[-1]
            for s in new:
                if isinstance(s[0], Pulse):
                    a = np.asarray(s[0].amplitude.samples.as_array(), dtype=float)
                    d = np.asarray(s[0].detuning.samples.as_array(), dtype=float)
                    if is_detuned_delay(s[0]):
                        if np.any(a != 0) or np.any(np.abs(d - blk[4]) > 1e-12):
                            ctx.fail("C15.square", "idle_detuning!=off_detuning",
                                     f"{name}: idle det {d[0]} vs off {blk[4]}")
                    else:
                        self.stats["eom_pulses"] = self.stats.get("eom_pulses", 0) + 1
                        if np.any(np.abs(a - blk[2]) > 1e-12) or np.any(np.abs(d - blk[3]) > 1e-12):
                            ctx.fail("C15.square", "pulse!=setpoint",
                                     f"{name}: EOM pulse amp {a[0]}..{a[-1]} det {d[0]} vs setpoint {blk[2:4]}")
                elif s[0] == "delay" and abs(blk[4]) > 1e-12:
                    ctx.fail("C15.square", "plain_delay_with_nonzero_off_detuning",
                             f"{name}: idle period without the off-detuning {blk[4]}")
            if abs(blk[4]) > 0.1 and o == "delay":
                self.stats["eom_idle"] = self.stats.get("eom_idle", 0) + 1

    def check_det_off(self, obj, amp_on, det_on, requested, chosen, name):
        """Own light-shift arithmetic from the RydbergEOM documentation."""
        ctx = self.ctx
        e = obj.eom_config
        D = e.intermediate_detuning
        cb, cr = e.blue_shift_coeff, e.red_shift_coeff
        lim_red = e.limiting_beam.name == "RED"
        sf = math.sqrt(cr / cb) if lim_red else math.sqrt(cb / cr)
        limit = sf * e.max_limiting_amp ** 2 / (2 * D)
        if amp_on <= limit:
            base2 = 2 * amp_on * D
            w_lim, w_other = math.sqrt(base2 / sf), math.sqrt(base2 * sf)
        else:
            w_lim, w_other = e.max_limiting_amp, 2 * D * amp_on / e.max_limiting_amp
        w = {"RED": w_lim if lim_red else w_other, "BLUE": w_other if lim_red else w_lim}

        def ls(on):
            return sum({"RED": -cr, "BLUE": cb}[b] * w[b] ** 2 for b in on) / (4 * D)

        offset = det_on - ls(("RED", "BLUE"))
        ctrl = [b.name for b in e.controlled_beams]
        combos = [(b,) for b in ctrl]
        if len(ctrl) > 1 and e.multiple_beam_control:
            combos.append(("RED", "BLUE"))
        options = [offset + ls(tuple(b for b in ("RED", "BLUE") if b not in off)) for off in combos]
        tol = 1e-9 * max(1.0, max(abs(x) for x in options))
        if min(abs(chosen - x) for x in options) > tol:
            ctx.fail("C15.det_off", "not_an_allowed_option",
                     f"{name}: chosen off-detuning {chosen}, allowed {options}")
        best = min(abs(x - requested) for x in options)
        if abs(chosen - requested) > best + tol:
            ctx.fail("C15.det_off", "not_closest_to_requested",
                     f"{name}: requested {requested}, chose {chosen}, options {options}")
        api = np.asarray(e.detuning_off_options(amp_on, det_on).as_array(), dtype=float)
        if len(api) != len(options) or np.max(np.abs(np.sort(api) - np.sort(options))) > tol:
            ctx.fail("C15.det_off", "detuning_off_options", f"{api.tolist()} vs {options}")
        if len(set(np.round(options, 9))) >= 2:
            self.stats["det_off_choice"] = self.stats.get("det_off_choice", 0) + 1

    # ------------------------------------------------------------------ C02
    def check_c02(self, op, pre: View, post: View, failed: bool = False):
        ctx = self.ctx
        C = "C02.timeline"
        seq = self.seq
        if post.parametrized:
            return
        for name, cv in post.ch.items():
            sl = cv.slots
            clk = cv.obj.clock_period
            mind = cv.obj.min_duration
            if not sl:
                continue
            s0 = sl[0]
            if not (s0[0] == "target" and s0[1] == -1 and s0[2] == 0):
                ctx.fail(C, "first_slot", f"{name}: first slot {s0[:3]}")
            for k in range(1, len(sl)):
                typ, ti, tf, tg = sl[k]
                if ti != sl[k - 1][2]:
                    ctx.fail(C, "gap_or_overlap",
                             f"{name}: slot {k} starts {ti}, previous ends {sl[k-1][2]}")
                if ti < 0 or tf < ti:
                    ctx.fail(C, "negative_or_reversed", f"{name}: slot {k} [{ti},{tf}]")
                if ti % clk or tf % clk:
                    ctx.fail(C, "not_clock_aligned",
                             f"{name}: slot {k} [{ti},{tf}] clock {clk} after {op['op']}")
                if isinstance(typ, Pulse):
                    if tf - ti != typ.duration:
                        ctx.fail(C, "pulse_len", f"{name}: slot {k} {tf-ti} != {typ.duration}")
                    if is_detuned_delay(typ) and tf - ti < mind:
                        ctx.fail(C, "short_delay", f"{name}: detuned delay {tf-ti} < {mind}")
                elif typ == "delay":
                    if tf - ti < mind:
                        ctx.fail(C, "short_delay",
                                 f"{name}: delay slot {k} lasts {tf-ti} < min_duration {mind} "
                                 f"after {op['op']}")
                elif typ == "target":
                    if tf > ti and tf - ti < mind:
                        ctx.fail(C, "short_retarget", f"{name}: retarget {tf-ti} < {mind}")
                else:
                    ctx.fail(C, "unknown_slot_type", repr(typ))
            # times never move: previous slot list is a prefix
            if name in pre.ch:
                old = pre.ch[name].slots
                if len(sl) < len(old):
                    ctx.fail(C, "slots_removed", f"{name}: {len(old)} -> {len(sl)}")
                for k, (a, b) in enumerate(zip(old, sl)):
                    if a[1:] != b[1:] or not (a[0] is b[0] or a[0] == b[0]):
                        ctx.fail(C, "slot_moved" + (":failed_call" if failed else ""),
                                 f"{name}: slot {k} {a[1:3]} -> {b[1:3]} by {op['op']}")
            # durations
            d = self.ctx.must(lambda: seq.get_duration(name), C, "get_duration(ch)")
            if d != sl[-1][2]:
                ctx.fail(C, "get_duration(ch)", f"{name}: {d} != {sl[-1][2]}")
            dft = self.ctx.must(
                lambda: seq.get_duration(name, include_fall_time=True), C,
                "get_duration(ch, fall)")
            if dft < d:
                ctx.fail(C, "fall_duration_lt_duration", f"{name}: {dft} < {d}")
            if not cv.blocks:
                exp = cv.end
                for s in sl:
                    if isinstance(s[0], Pulse) and cv.end - s[2] < 2 * cv.obj.rise_time:
                        exp = max(exp, s[2] + cv.fall(s))
                lp = cv.last_pulse()
                # only the most recent pulse's tail is guaranteed to be counted
                exp_last = cv.end if lp is None else max(cv.end, lp[2] + cv.fall(lp))
                if dft not in (exp, exp_last):
                    ctx.fail(C, "get_duration(ch,fall)",
                             f"{name}: {dft} not in {{{exp},{exp_last}}}")
        tot = self.ctx.must(lambda: seq.get_duration(), C, "get_duration()")
        exp = max([cv.end for cv in post.ch.values()] or [0])
        if tot != exp:
            ctx.fail(C, "get_duration()", f"{tot} != max over channels {exp}")
        if post.ch:
            # with the pending fall time: the maximum over channels of each channel's own value
            per = {n: seq.get_duration(n, include_fall_time=True) for n in post.ch}
            totf = self.ctx.must(lambda: seq.get_duration(include_fall_time=True), C, "get_duration(fall)")
            if totf != max(per.values()):
                ctx.fail(C, "get_duration(fall)",
                         f"sequence duration with fall time {totf} != max over channels {per}")
        # rounding really acted?
        name = self._op_channel(op)
        if name is not None and name in post.ch and not failed:
            for s in self._new_slots(pre, post, name):
                auto = s[0] == "delay" and op["op"] not in ("delay",)
                auto = auto or (s[0] == "target" and s[2] > s[1])
                if auto:
                    self.stats["auto_delay"] += 1

    def check_c02_final(self):
        """sample()/str() agree with the slot list (once per program)."""
        ctx = self.ctx
        C = "C02.views"
        seq = self.seq
        if seq.is_parametrized() or not seq._schedule:
            return
        from pulser.sampler import sample

        view = View(seq)
        if any(v.is_dmm for v in view.ch.values()) and seq.is_register_mappable():
            return
        sm = ctx.must(lambda: sample(seq), C, "sample(seq)")
        for name, cv in view.ch.items():
            cs = sm.channel_samples[name]
            pulses = [s for s in cv.slots if isinstance(s[0], Pulse)]
            if len(cs.slots) != len(pulses):
                ctx.fail(C, "sample.slots:count", f"{name}: {len(cs.slots)} != {len(pulses)}")
            for k, (ps, s) in enumerate(zip(cs.slots, pulses)):
                nxt = pulses[k + 1][1] if k + 1 < len(pulses) else None
                tf = s[2] + cv.fall(s)
                if nxt is not None:
                    tf = min(tf, nxt)
                if ps.ti != s[1] or set(ps.targets) != set(s[3]):
                    ctx.fail(C, "sample.slots:ti_targets", f"{name}[{k}]")
                if ps.tf != tf:
                    ctx.fail(C, "sample.slots:tf", f"{name}[{k}]: {ps.tf} != {tf}")
            if cs.duration != cv.end:
                ctx.fail(C, "sample.duration", f"{name}: {cs.duration} != {cv.end}")
        txt = ctx.must(lambda: str(seq), C, "str(seq)")
        self._check_str(txt, view, C)

    def _check_str(self, txt: str, view: View, C: str):
        import re

        ctx = self.ctx
        blocks = re.split(r"\n\n", txt.strip())
        found = {}
        for b in blocks:
            lines = b.strip().split("\n")
            m = re.match(r"Channel: ?(.*)", lines[0])
            if not m:
                continue
            found[m.group(1)] = lines[1:]
        for name, cv in view.ch.items():
            if name not in found:
                ctx.fail(C, "str:channel_missing", name)
            lines = [ln for ln in found[name] if ln.startswith("t: ")]
            slots = cv.slots
            if len(lines) != len(slots):
                ctx.fail(C, "str:line_count", f"{name}: {len(lines)} lines, {len(slots)} slots")
            for ln, s in zip(lines, slots):
                m = re.match(r"t: (-?\d+)(?:->(-?\d+))? \| (.*)", ln)
                if not m:
                    ctx.fail(C, "str:unparsable", ln)
                ti = int(m.group(1))
                tf = int(m.group(2)) if m.group(2) is not None else None
                if s[1] == -1:
                    if ti != 0:
                        ctx.fail(C, "str:initial_target_time", ln)
                    continue
                if ti != s[1] or (tf is not None and tf != s[2]):
                    ctx.fail(C, "str:times", f"{name}: '{ln}' vs slot {s[1:3]}")

    # ------------------------------------------------------------------ C03
    def _estimate(self, op, pre: View):
        """estimate_added_delay with the same arguments, before the add."""
        o = op["op"]
        if o not in ("add", "add_dmm", "add_eom"):
            return None
        seq = self.seq
        try:
            if o == "add":
                name, args, kwargs = self.it.call(op)
                p = kwargs.get("pulse", args[0] if args else None)
                ch = kwargs.get("channel", args[1] if len(args) > 1 else None)
                proto = kwargs.get("protocol", args[2] if len(args) > 2 else "min-delay")
                return ("val", seq.estimate_added_delay(p, ch, proto))
            if o == "add_dmm":
                wf = build.mk_wf(op["wf"])
                return ("val", seq.estimate_added_delay(
                    Pulse.ConstantAmplitude(0, wf, 0), self.it.dmm(op["dmm"]),
                    op.get("protocol", "no-delay")))
            if o == "add_eom":
                ch = self.it.chan(op["ch"])
                cv = pre.ch.get(ch)
                if cv is None or not cv.in_eom:
                    return None
                b = cv.blocks[-1]
                p = Pulse.ConstantPulse(op["d"], b[2], b[3], op["phase"],
                                        post_phase_shift=op.get("pps", 0.0))
                return ("val", seq.estimate_added_delay(
                    p, ch, op.get("protocol", "min-delay")))
        except Exception as e:  # noqa: BLE001 - judged against the add itself
            return ("exc", e)
        return None

    def check_c03(self, op, pre: View, post: View, est):
        ctx = self.ctx
        o = op["op"]
        if post.parametrized:
            return
        if o == "align":
            return self.check_align(op, pre, post)
        if o not in ("add", "add_dmm", "add_eom"):
            return
        name = self._op_channel(op)
        if name not in post.ch or name not in pre.ch:
            return
        cv0 = pre.ch[name]
        new = self._new_slots(pre, post, name)
        if not new or not isinstance(new[-1][0], Pulse):
            return
        q = new[-1]
        t0 = cv0.end
        ti = q[1]
        T = cv0.slots[-1][3]
        proto = op.get("protocol", "no-delay" if o == "add_dmm" else "min-delay")
        basis = basis_of(cv0.obj)
        Bnz = max([self.pre_shift_nz.get((basis, x), 0) for x in T] or [0])
        Ball = max([self.pre_shift_t.get((basis, x), 0) for x in T] or [0])
        barriers = {Bnz, Ball}
        for x in T:
            reg = self.pre_shift_t.get((basis, x), 0)
            if reg > self.pre_last_used.get((basis, x), 0) or reg < self.pre_shift_nz.get((basis, x), 0):
                ctx.fail("C03.barrier", "shift_registered_at_impossible_time",
                         f"({basis},{x}): registered {reg}, last use "
                         f"{self.pre_last_used.get((basis, x), 0)}, last real shift "
                         f"{self.pre_shift_nz.get((basis, x), 0)}")
        cpd = bool(op.get("cpd")) and o == "add_eom"
        if ti < Bnz:
            ctx.fail("C03.barrier", "starts_before_phase_shift",
                     f"{name}: pulse at {ti} < barrier {Bnz}")
        if proto == "no-delay":
            accepted = {t0 + cv0.adj(max(t0, b) - t0) for b in barriers}
            clause = "C03.no_delay"
            detail = f"t0={t0}, barrier {sorted(barriers)}"
        else:
            La = Lb = 0
            for oname, ov in pre.ch.items():
                if oname == name:
                    continue
                # most recent pulse on the other channel that shares a target
                for s in reversed(ov.slots):
                    if not isinstance(s[0], Pulse):
                        continue
                    if proto == "wait-for-all" or (s[3] & T):
                        # two readings of "its fall time": EOM state of the slot,
                        # or EOM state of that channel now
                        fa = s[2] + ov.fall(s)
                        fb = s[2] + int(s[0].fall_time(ov.obj, in_eom_mode=ov.in_eom))
                        La = max(La, fa)
                        Lb = max(Lb, fb)
                        if ti < min(fa, fb):
                            ctx.fail(
                                "C03.no_conflict",
                                f"{proto}:starts_before_other_channel_rest",
                                f"{name}: pulse starts {ti} but pulse on {oname} "
                                f"[{s[1]},{s[2]}] needs until {min(fa, fb)}")
                        if min(fa, fb) > t0 and min(fa, fb) > s[2]:
                            self.stats["conflicts"] += 1
                            self.stats["nt_c03"] += 1
                        break
            J = 0
            close = False
            lp = cv0.last_real_pulse()
            if lp is not None and not cpd:
                newphase = float(q[0].phase)
                if float(lp[0].phase) != newphase:
                    ie = cv0.in_eom
                    J = (max(cv0.obj.phase_jump_time, 2 * cv0.obj.rise_time * ie)
                         + int(lp[0].fall_time(cv0.obj, in_eom_mode=ie)) - (t0 - lp[2]))
                    close = circ(float(lp[0].phase), newphase) < 1e-9
            Js = {J}
            if lp is not None and not cpd and J and cv0.in_eom and cv0.obj.eom_config:
                # "twice the EOM rise time" read literally
                Js.add(max(cv0.obj.phase_jump_time, 2 * cv0.obj.eom_config.rise_time)
                       + int(lp[0].fall_time(cv0.obj, in_eom_mode=True)) - (t0 - lp[2]))
            accepted = set()
            for b in barriers:
                for Lx in (La, Lb):
                    need = max(t0, b, Lx) - t0
                    for Jx in Js:
                        accepted.add(t0 + cv0.adj(max(need, Jx)))
                    if close:
                        accepted.add(t0 + cv0.adj(need))
            clause = "C03.minimal"
            detail = (f"t0={t0}, barrier {sorted(barriers)}, other channels rest at "
                      f"{sorted({La, Lb})}, phase-jump need {J}")
        if not cpd and ti not in accepted:
            how = "late" if ti > max(accepted) else "early" if ti < min(accepted) else "between"
            ctx.fail(clause, f"{proto}:{how}",
                     f"{name}: pulse starts at {ti}, model allows {sorted(accepted)} ({detail})")
        # estimate == inserted
        if est is not None and not cpd:
            if est[0] == "exc":
                ctx.fail("C03.estimate", "estimate_raised_but_add_succeeded",
                         f"{type(est[1]).__name__}: {est[1]}")
            elif est[1] != ti - t0:
                ctx.fail("C03.estimate", "estimate!=inserted",
                         f"{name}: estimate_added_delay={est[1]}, add inserted {ti - t0} ({o}, {proto})")

    def check_align(self, op, pre: View, post: View):
        ctx = self.ctx
        at_rest = op.get("at_rest")
        at_rest = True if at_rest is None else at_rest
        names = [self.it.chan(c) for c in op["chs"]]
        if any(n not in pre.ch for n in names):
            return
        ends = {n: (pre.ch[n].end_with_fall() if at_rest else pre.ch[n].end) for n in names}
        ends2 = {n: (pre.ch[n].end_with_fall_last(False) if at_rest else pre.ch[n].end) for n in names}
        ends3 = {n: (pre.ch[n].end_with_fall_last(True) if at_rest else pre.ch[n].end) for n in names}
        problems = []
        for variant in (ends, ends2, ends3):
            E = max(variant.values())
            bad = None
            for n in names:
                cur = pre.ch[n].end
                exp = cur + pre.ch[n].adj(max(0, E - cur))
                got = post.ch[n].end
                if got != exp:
                    has_fall = variant[n] > cur
                    disc = f"at_rest={at_rest}"
                    if at_rest and has_fall and got < E:
                        disc += ",laggard_has_fall_time"
                    elif got < E:
                        disc += ",short"
                    else:
                        disc += ",long"
                    bad = (disc, f"align{tuple(names)}: {n} ends at {got}, expected {exp} "
                           f"(latest end {E}, own end {cur}, own end+fall {variant[n]})")
                    break
            if bad is None:
                problems = []
                break
            problems.append(bad)
        if problems:
            ctx.fail("C03.align", problems[0][0], problems[0][1], cont=True)
        if at_rest and any(ends[n] > pre.ch[n].end for n in names):
            self.stats["align_fall"] += 1
            self.stats["nt_c03"] += 1

    # ------------------------------------------------------------------ C10
    def check_c10(self, op, pre: View, post: View):
        ctx = self.ctx
        if post.parametrized:
            return
        name = self._op_channel(op)
        if name is None or name not in post.ch or name not in pre.ch:
            return
        cv0, cv1 = pre.ch[name], post.ch[name]
        new = self._new_slots(pre, post, name)
        o = op["op"]
        if o in ("add", "add_eom", "add_dmm") and new and isinstance(new[-1][0], Pulse):
            q = new[-1]
            p = cv0.last_real_pulse()
            proto = op.get("protocol", "no-delay" if o == "add_dmm" else "min-delay")
            if p is not None and not is_detuned_delay(q[0]):
                dphi = circ(float(p[0].phase), float(q[0].phase))
                if dphi > 1e-9 and proto != "no-delay":
                    ie = cv0.in_eom
                    # statement: phase-jump time (at least twice the EOM rise
                    # time in EOM mode) plus the first pulse's fall time; both
                    # readings of that fall time (EOM state of the slot / of the
                    # channel now) are accepted -> the smaller one is required
                    # "the EOM rise time": the lower of the EOM's and the channel's
                    # rise time (the tree uses the channel's; they differ only
                    # when an EOM is configured slower than its channel)
                    eom_rise = (min(cv0.obj.eom_config.rise_time, cv0.obj.rise_time)
                                if (ie and cv0.obj.eom_config) else 0)
                    fall_p = min(cv0.fall(p), int(p[0].fall_time(cv0.obj, in_eom_mode=ie)))
                    need = max(cv0.obj.phase_jump_time, 2 * eom_rise) + fall_p
                    gap = q[1] - p[2]
                    natural = cv0.end - p[2]
                    if natural < need:
                        self.stats["pj"] += 1
                        self.stats["nt_c10"] += 1
                    if gap < need:
                        ctx.fail("C10.phase_jump", "gap_too_short" + (":eom" if ie else ""),
                                 f"{name}: pulses of phase {float(p[0].phase):.6f} and "
                                 f"{float(q[0].phase):.6f} separated by {gap} < {need}")
        if o in ("target", "target_index"):
            tgt_slots = [s for s in new if s[0] == "target"]
            old_last = cv0.slots[-1] if cv0.slots else None
            if old_last is None:
                return  # the channel's initial target
            req = self._requested_targets(op)
            if req == set(old_last[3]):
                if new:
                    kinds = ",".join(sorted({
                        "pulse" if isinstance(s[0], Pulse) else str(s[0]) for s in new}))
                    ctx.fail("C10.retarget", "same_target_inserts:" + kinds,
                             f"{name}: retargeting to the same atoms {sorted(map(str, req))} "
                             f"appended {[(str(s[0])[:6], s[1], s[2]) for s in new]}",
                             cont=True)
                return
            if not tgt_slots:
                return
            s2 = tgt_slots[-1]
            if s2[1] == -1:
                return
            self.stats["retarget"] += 1
            prev_t = None
            for s in reversed(cv0.slots):
                if s[0] == "target":
                    prev_t = s
                    break
            mri = cv0.obj.min_retarget_interval or 0
            frt = cv0.obj.fixed_retarget_t or 0
            if prev_t is not None:
                if s2[1] - prev_t[2] < mri:
                    self.stats["nt_c10"] += 1
                if s2[2] - prev_t[2] < mri:
                    ctx.fail("C10.retarget", "interval",
                             f"{name}: target ends {prev_t[2]} and {s2[2]} < {mri} apart")
            if s2[2] - s2[1] < frt:
                ctx.fail("C10.retarget", "fixed_retarget_t",
                         f"{name}: retarget lasts {s2[2]-s2[1]} < {frt}")
            lp = cv0.last_pulse()
            if lp is not None:
                # both readings of the pulse's fall time are admissible (EOM
                # state of the slot / of the channel at retarget time)
                need = lp[2] + min(cv0.fall(lp),
                                   int(lp[0].fall_time(cv0.obj, in_eom_mode=cv0.in_eom)))
                if s2[1] < need:
                    ctx.fail("C10.retarget", "before_ramp_down",
                             f"{name}: retarget begins {s2[1]} < {need}")

    def _requested_targets(self, op) -> set:
        if op["op"] == "target":
            return {self.it.qubit(q) for q in op["qubits"]}
        return {self.it.qids[q % len(self.it.qids)] for q in op["qubits"]}

    # ------------------------------------------------------------------ C07
    def check_c07(self, op, pre: View, post: View, pre_refs):
        ctx = self.ctx
        seq = self.seq
        if post.parametrized:
            return
        pm = self.pm
        post_refs = self._refs()
        for (b, q), v in post_refs.items():
            if (b, q) not in pm.sum:
                continue
            if circ(v, pm.sum[(b, q)]) > 1e-9:
                ctx.fail("C07.sum", f"ref!=sum_of_shifts:{op['op']}",
                         f"({b},{q}): current_phase_ref={v}, sum of shifts={pm.sum[(b, q)]}")
            api = ctx.must(lambda: seq.current_phase_ref(q, b), "C07.sum", "current_phase_ref")
            if api != v:
                ctx.fail("C07.sum", "api!=tracker", "")
        o = op["op"]
        name = self._op_channel(op)
        if o in ("add", "add_eom") and name in post.ch and name in pre.ch:
            cv0 = pre.ch[name]
            if cv0.is_dmm:
                return
            new = self._new_slots(pre, post, name)
            if not new or not isinstance(new[-1][0], Pulse):
                return
            s = new[-1]
            basis = basis_of(cv0.obj)
            T = cv0.slots[-1][3]
            refs = {pre_refs.get((basis, q), 0.0) for q in T}
            if len({round(r % TWO_PI, 9) for r in refs}) > 1 and max(
                circ(a, b) for a in refs for b in refs
            ) > 1e-6:
                ctx.fail("C07.applied", "multi_target_different_refs_accepted",
                         f"{name}: targets {sorted(map(str, T))} have refs {refs}")
            ref = next(iter(refs)) if refs else 0.0
            if o == "add":
                try:
                    _, args, kwargs = self.it.call(op)
                    programmed = float(kwargs.get("pulse", args[0] if args else None).phase)
                except Exception:  # noqa: BLE001
                    return
            else:
                programmed = float(op["phase"]) % TWO_PI
            if not (o == "add_eom" and op.get("cpd")):
                if circ(float(s[0].phase), programmed + ref) > 1e-9:
                    ctx.fail("C07.applied", "phase!=programmed+ref",
                             f"{name}: scheduled phase {float(s[0].phase)}, programmed "
                             f"{programmed} + ref {ref}")
            else:
                # drift-corrected EOM pulse: the correction moves the reference before the
                # pulse and the post-phase-shift after it: scheduled phase = programmed +
                # (reference after the call - post_phase_shift), whatever the drift is
                # worth (its value is C15's subject)
                off = float(s[0].phase) - programmed - ref
                for q in T:
                    dref = post_refs.get((basis, q), 0.0) - pre_refs.get((basis, q), 0.0)
                    if circ(dref - off, float(op.get("pps", 0.0))) > 1e-9:
                        ctx.fail("C07.applied", "drift_corrected_pulse:ref_change-offset!=post_phase_shift",
                                 f"{name}: phase offset {off % TWO_PI}, reference change {dref % TWO_PI}, "
                                 f"post_phase_shift {op.get('pps', 0.0)}")
                        break
                if op.get("pps"):
                    self.stats["nt_c07"] += 1
            barrier = max([self.pre_shift_t.get((basis, q), 0) for q in T] or [0])
            if s[1] < barrier:
                ctx.fail("C07.barrier", "starts_before_last_shift",
                         f"{name}: pulse starts {s[1]} < latest shift time {barrier}")
            # the model's own time of the last reference-changing shift: the end of the
            # latest pulse that had used the atom in this basis when the shift was made
            bnz = max([self.pre_shift_nz.get((basis, q), 0) for q in T] or [0])
            if s[1] < bnz:
                ctx.fail("C07.barrier", "starts_before_last_real_shift",
                         f"{name}: pulse starts {s[1]} < time of the latest non-zero shift of its targets {bnz} "
                         f"(the tree registered it at {barrier})")
            if any(self.pre_nshifts.get((basis, q), 0) >= 2 for q in T):
                self.stats["nt_c07"] += 1

    pre_shift_t: dict = {}
    pre_nshifts: dict = {}
    _pending_drift = None

    # ------------------------------------------------------------------ C09
    def check_c09_atomic(self, op, pre_snap, exc, k):
        ctx = self.ctx
        after = snap.snapshot(self.seq)
        d = snap.diff(pre_snap, after)
        self.stats["fail_after3"] += 1 if self.stats["ok"] >= 3 else 0
        if d:
            self.stats["late_fail"] += 1
            where = snap.diff_key(d)
            ctx.fail("C09.atomic", f"{op['op']}:{type(exc).__name__}:{where}",
                     f"op #{k} {op} raised {type(exc).__name__}: {str(exc)[:120]} "
                     f"but changed the sequence: {d}", cont=True)

    def check_c09_readonly(self, op, k=0, heavy=False):
        """Read-only operations never change the sequence."""
        ctx = self.ctx
        seq = self.seq
        C = "C09.readonly"
        before = snap.snapshot(seq)
        ran = []

        def attempt(name, fn):
            try:
                fn()
            except Exception:  # noqa: BLE001 - may legitimately refuse
                pass
            ran.append(name)
            after = snap.snapshot(seq)
            d = snap.diff(before, after)
            if d:
                ctx.fail(C, f"{name}:{snap.diff_key(d)}",
                         f"{name} changed the sequence: {d}", cont=True)

        attempt("str", lambda: str(seq))
        attempt("get_duration", lambda: (seq.get_duration(), [
            seq.get_duration(c, include_fall_time=True) for c in seq.declared_channels]))
        attempt("queries", lambda: (seq.is_parametrized(), seq.is_measured(),
                                    seq.available_channels, seq.declared_channels,
                                    seq.declared_variables, seq.get_addressed_bases(),
                                    seq.get_addressed_states(),
                                    [seq.is_in_eom_mode(c) for c in seq.declared_channels]))
        if not seq.is_parametrized():
            for b in seq.get_addressed_bases():
                attempt("current_phase_ref", lambda: [
                    seq.current_phase_ref(q, b) for q in seq._register.qubit_ids])
            from pulser import Pulse as _P
            from pulser.sampler import sample

            for c in list(seq.declared_channels)[:3]:
                attempt("estimate_added_delay", lambda: seq.estimate_added_delay(
                    _P.ConstantPulse(52, 0.0 if c.startswith("dmm_") else 1.0,
                                     -1.0 if c.startswith("dmm_") else 0.0, 0.3),
                    c, "min-delay"))
            attempt("sample", lambda: sample(seq))
            attempt("sample_mod", lambda: sample(seq, modulation=True))
        attempt("to_abstract_repr", lambda: seq.to_abstract_repr())
        attempt("_serialize", lambda: seq._serialize())
        if heavy and not seq.is_parametrized():
            import matplotlib.pyplot as plt

            attempt("draw", lambda: seq.draw(show=False))
            plt.close("all")
        return ran

    def check_c09_final(self):
        """The state is reproducible from the record of successful calls."""
        ctx = self.ctx
        seq = self.seq
        C = "C09.rebuild"
        if self.stats["late_fail"]:
            return  # a listed/just-reported partial effect already corrupted it
        ref = snap.snapshot(seq)
        if not seq.is_parametrized() and not seq.is_register_mappable():
            # (declared but unused variables still need a value)
            vals = {n: ([1] * v.size if v.size > 1 else 1) if v.dtype is int else
                    ([1.0] * v.size if v.size > 1 else 1.0)
                    for n, v in seq.declared_variables.items()}
            cp = ctx.must(lambda: seq.build(**vals), C, "build() of a built sequence")
            # (the built copy does not carry the variable declarations)
            novar = lambda s_: {k: v for k, v in s_.items() if k != "variables"}  # noqa: E731
            d = snap.diff(novar(ref), novar(snap.snapshot(cp)))
            if d:
                ctx.fail(C, f"build:{snap.diff_key(d)}", f"seq.build() differs: {d}", cont=True)
        if seq.is_register_mappable() and not seq.is_parametrized():
            # building with some of the qubits mapped (what to_abstract_repr(qubits=...) does too)
            # is a copy: the template keeps knowing all its qubits
            ids_ = list(seq._register.qubit_ids)
            part = {ids_[0]: 0}
            try:
                seq.build(qubits=part)
                seq.to_abstract_repr(qubits=part)
            except Exception:  # noqa: BLE001 - (e.g. calls that name qubits left unmapped)
                ctx.label("partial_mapping_refused")
            d = snap.diff(ref, snap.snapshot(seq))
            if d:
                ctx.fail(C, f"build_with_mapping_changes_template:{snap.diff_key(d)}",
                         f"after build(qubits={part}) the template differs: {d}", cont=True)
        reg = seq._register
        sw = ctx.must(lambda: seq.switch_register(reg), C, "switch_register(same)")
        d = snap.diff(ref, snap.snapshot(sw))
        if d:
            ctx.fail(C, f"switch_register:{snap.diff_key(d)}",
                     f"switch_register(identical) differs: {d}", cont=True)
        # the copy is a sequence of its own: calls made on it are not calls on the original
        for what, other in (("switch_register", sw),):
            try:
                other.declare_variable("pv_probe_var", dtype=float)
                for ch in list(other.declared_channels)[:2]:
                    if not other.is_measured():
                        other.delay(16, ch)
            except Exception:  # noqa: BLE001 - the copy may refuse; only the original matters
                pass
            d = snap.diff(ref, snap.snapshot(seq))
            if d:
                ctx.fail(C, f"call_on_copy_changes_original:{what}:{snap.diff_key(d)}",
                         f"after calls on the {what} copy the original differs: {d}", cont=True)
