"""Seeded Hypothesis driver: sharding, bucketing, shrink, replay, evidence."""
from __future__ import annotations

import collections
import dataclasses
import hashlib
import json
import os
import sys
import time
import traceback
from typing import Any, Callable, Iterable, Optional

from pv import env

TIERS = ("quick", "thorough")


class Violation(Exception):
    """An oracle failure carrying its bucket key (clause, discriminator)."""

    def __init__(self, clause: str, disc: str, msg: str = ""):
        super().__init__(f"[{clause} | {disc}] {msg}")
        self.clause = clause
        self.disc = disc
        self.msg = msg

    @property
    def key(self) -> tuple[str, str]:
        return (self.clause, self.disc)


class KnownHit(Exception):
    """Raised to end a case early at a listed known finding."""


def canon(obj: Any) -> str:
    return json.dumps(obj, sort_keys=True, separators=(",", ":"), default=_jd)


def _jd(o: Any) -> Any:
    import numpy as np

    if isinstance(o, (np.integer,)):
        return int(o)
    if isinstance(o, (np.floating,)):
        return float(o)
    if isinstance(o, np.ndarray):
        return o.tolist()
    if isinstance(o, (set, frozenset)):
        return sorted(o, key=str)
    if isinstance(o, tuple):
        return list(o)
    if isinstance(o, complex):
        return {"re": o.real, "im": o.imag}
    return repr(o)


def case_hash(case: Any) -> str:
    return hashlib.sha1(canon(case).encode()).hexdigest()[:16]


def exc_disc(e: BaseException) -> str:
    """Discriminator for an unexpected exception: type + innermost tree frame."""
    tb = traceback.extract_tb(e.__traceback__)
    where = "?"
    for fr in reversed(tb):
        fn = fr.filename.replace("\\", "/")
        if "/pulser/" in fn or "/pulser_simulation/" in fn:
            short = fn.split("/pulser-core/")[-1].split("/pulser-simulation/")[-1]
            where = f"{short}:{fr.name}"
            break
    return f"exc:{type(e).__name__}@{where}"


class Ctx:
    """Per-job context handed to check functions."""

    def __init__(self, prop: str, tier: str, known: set, swallow: bool = True):
        self.prop = prop
        self.tier = tier
        self.known = known if swallow else set()
        self.collect = bool(os.environ.get("PV_COLLECT"))
        self.collected: dict = {}
        self.evaluations = 0
        self.nt_hashes: set[str] = set()
        self.bulk_nt = 0
        self.labels: collections.Counter = collections.Counter()
        self.excluded: collections.Counter = collections.Counter()
        self.excluded_samples: dict[str, Any] = {}
        self.samples: list[Any] = []
        self._sample_labels: set = set()
        self.steps = 0
        self._case: Any = None
        self._nt = False
        self._case_labels: list[str] = []

    # --- called by engine
    def begin(self, case: Any) -> None:
        self._case = case
        self._nt = False
        self._case_labels = []

    def end(self) -> None:
        self.evaluations += 1
        for lb in set(self._case_labels):
            self.labels[lb] += 1
        if self._nt:
            h = case_hash(self._case)
            if h not in self.nt_hashes:
                self.nt_hashes.add(h)
                new = [lb for lb in self._case_labels if lb not in self._sample_labels]
                if len(self.samples) < 3 or (new and len(self.samples) < 8):
                    self.samples.append(self._case)
                    self._sample_labels.update(self._case_labels)

    # --- called by checks
    def nontrivial(self, flag: bool = True) -> None:
        if flag:
            self._nt = True

    def label(self, *names: str) -> None:
        self._case_labels.extend(names)

    def bulk(self, n_eval: int, n_nt: int) -> None:
        """Account for an internally enumerated batch (distinct by construction)."""
        self.evaluations += max(0, n_eval - 1)
        self.bulk_nt += n_nt

    def fail(self, clause: str, disc: str, msg: str = "", cont: bool = False) -> None:
        """Report an oracle failure. Known findings are counted and swallowed."""
        key = (clause, disc)
        if self.collect and key not in self.known:
            ent = self.collected.setdefault(f"{clause}|{disc}", [0, self._case, msg[:600]])
            ent[0] += 1
            if cont:
                return
            raise KnownHit()
        if key in self.known:
            self.excluded[f"{clause}|{disc}"] += 1
            self.excluded_samples.setdefault(f"{clause}|{disc}", self._case)
            if cont:
                return
            raise KnownHit()
        raise Violation(clause, disc, msg)

    def must(self, fn: Callable[[], Any], clause: str, what: str = "") -> Any:
        """Run tree code that must not raise inside this clause."""
        try:
            return fn()
        except (Violation, KnownHit, env.HarnessError):
            raise
        except Exception as e:  # noqa: BLE001 - bucketed, never swallowed
            self.fail(clause, exc_disc(e), f"{what}: {type(e).__name__}: {e}")
            raise KnownHit()  # unreachable unless known


@dataclasses.dataclass
class Clause:
    name: str
    check: Callable[[Any, Ctx], None]
    gen: Optional[Callable[[str], Any]] = None  # tier -> strategy
    enum: Optional[Callable[[str], Iterable[Any]]] = None  # tier -> cases
    budget: dict = dataclasses.field(
        default_factory=lambda: {"quick": (4, 100), "thorough": (16, 1000)}
    )
    exhaustive: bool = False
    doc: str = ""


def derive_seed(*parts: Any) -> int:
    s = ":".join(str(p) for p in parts)
    return int(hashlib.sha256(s.encode()).hexdigest()[:12], 16)


def _run_case(clause: Clause, case: Any, ctx: Ctx) -> Optional[Violation]:
    ctx.begin(case)
    try:
        clause.check(case, ctx)
    except KnownHit:
        pass
    except Violation as v:
        return v
    finally:
        ctx.end()
    return None


def run_job(args: tuple) -> dict:
    """One (clause, shard) job. Runs in a worker process."""
    prop, clause_name, shard, nshards, nexamples, tier, seed, known = args
    t0 = time.time()
    out: dict = dict(
        clause=clause_name, shard=shard, violation=None, error=None
    )
    try:
        env.setup()
        import numpy as np

        mod = load_prop(prop)
        clause = {c.name: c for c in mod.CLAUSES}[clause_name]
        ctx = Ctx(prop, tier, set(map(tuple, known)))
        viol: Optional[tuple[Any, Violation]] = None
        if clause.enum is not None:
            for i, case in enumerate(clause.enum(tier)):
                if i % nshards != shard:
                    continue
                v = _run_case(clause, case, ctx)
                if v is not None:
                    viol = (case, v)
                    break
        if viol is None and clause.gen is not None and nexamples > 0:
            viol = _run_hypothesis(
                prop, clause, ctx, tier, shard, nexamples, seed
            )
        if viol is not None:
            case, v = viol
            case = ddmin_ops(clause, case, v, prop, tier)
            out["violation"] = dict(
                clause=v.clause, disc=v.disc, msg=v.msg[:2000], case=case,
                clause_name=clause_name,
            )
        out.update(
            evaluations=ctx.evaluations,
            nt=sorted(ctx.nt_hashes),
            bulk_nt=ctx.bulk_nt,
            labels=dict(ctx.labels),
            excluded=dict(ctx.excluded),
            excluded_samples=ctx.excluded_samples,
            samples=ctx.samples,
            steps=ctx.steps,
            collected=ctx.collected,
        )
    except BaseException as e:  # noqa: BLE001
        out["error"] = "".join(
            traceback.format_exception(type(e), e, e.__traceback__)
        )[-6000:]
    out["wall"] = time.time() - t0
    return out


def ddmin_ops(clause, case, v, prop, tier, budget: int = 400):
    """Greedy deletion of op records that are not needed for the same failure."""
    if not (isinstance(case, dict) and isinstance(case.get("ops"), list)):
        return case
    import copy

    def fails(c) -> bool:
        try:
            r = _run_case(clause, c, Ctx(prop, tier, set()))
        except Exception:  # noqa: BLE001 - a different problem: keep the op
            return False
        return r is not None and r.key == v.key

    cur = copy.deepcopy(case)
    n_eval = 0
    changed = True
    while changed and n_eval < budget:
        changed = False
        i = len(cur["ops"]) - 1
        while i >= 0 and n_eval < budget:
            cand = dict(cur)
            cand["ops"] = cur["ops"][:i] + cur["ops"][i + 1:]
            n_eval += 1
            if fails(cand):
                cur = cand
                changed = True
            i -= 1
    return cur


def _run_hypothesis(prop, clause, ctx, tier, shard, nexamples, seed):
    import hypothesis
    from hypothesis import HealthCheck, Phase, given, settings

    state: dict = {"case": None, "v": None, "t": None, "hash": None}
    shrink_budget = 25.0 if tier == "quick" else 180.0

    @hypothesis.seed(derive_seed(seed, prop, clause.name, shard))
    @settings(
        max_examples=nexamples,
        database=None,
        deadline=None,
        derandomize=False,
        report_multiple_bugs=False,
        # quick tier: no Hypothesis shrinking (hard 5 min cap per failing shard);
        # programs are still minimised by ddmin_ops
        phases=[Phase.generate] + ([Phase.shrink] if tier == "thorough" else []),
        suppress_health_check=[
            HealthCheck.too_slow,
            HealthCheck.data_too_large,
            HealthCheck.large_base_example,
        ],
        verbosity=hypothesis.Verbosity.quiet,
    )
    @given(clause.gen(tier))
    def test(case):
        if state["t"] is not None and time.time() - state["t"] > shrink_budget:
            # shrink budget used up: only the best known failing case is
            # still executed (never a correctness signal, only a cap)
            if case_hash(case) != state["hash"]:
                return
        v = _run_case(clause, case, ctx)
        if v is not None:
            if state["t"] is None:
                state["t"] = time.time()
            state.update(case=case, v=v, hash=case_hash(case))
            raise v

    try:
        test()
    except Violation:
        return (state["case"], state["v"])
    except hypothesis.errors.FailedHealthCheck as e:
        raise env.HarnessError(f"generator health check: {e}")
    except hypothesis.errors.Flaky as e:
        if state["v"] is not None:
            return (state["case"], state["v"])
        raise env.HarnessError(f"flaky: {e}")
    return None


def load_prop(prop: str):
    import importlib

    return importlib.import_module(f"props.{prop.lower()}")


# ---------------------------------------------------------------- findings


def load_findings(prop: str) -> list[dict]:
    p = os.path.join(env.VERIF_ROOT, "known_findings.json")
    if not os.path.exists(p):
        return []
    with open(p) as f:
        data = json.load(f)
    return [e for e in data.get("findings", []) if e["property"] == prop]


def evidence_dir() -> str:
    return os.environ.get("PV_EVIDENCE_DIR") or os.path.join(env.VERIF_ROOT, "evidence")


def write_replay(prop: str, viol: dict) -> str:
    d = os.path.join(evidence_dir(), "replays")
    os.makedirs(d, exist_ok=True)
    body = dict(
        property=prop,
        clause=viol["clause_name"],
        key=[viol["clause"], viol["disc"]],
        msg=viol["msg"],
        case=viol["case"],
    )
    h = hashlib.sha1(canon(body["case"]).encode()).hexdigest()[:10]
    path = os.path.join(d, f"{prop}-{viol['clause_name']}-{h}.json")
    with open(path, "w") as f:
        f.write(json.dumps(body, indent=1, default=_jd))
    return os.path.relpath(path, env.VERIF_ROOT) if path.startswith(env.VERIF_ROOT) else path


def replay_file(prop: str, path: str, known: set, tier: str = "quick"):
    """Returns Violation or None. Known keys are NOT swallowed unless given."""
    with open(path) as f:
        body = json.load(f)
    mod = load_prop(prop)
    clause = {c.name: c for c in mod.CLAUSES}[body["clause"]]
    ctx = Ctx(prop, tier, known)
    v = _run_case(clause, body["case"], ctx)
    return v, ctx


# ---------------------------------------------------------------- main driver


def run_property(prop: str, tier: str, only_clause: Optional[str] = None) -> int:
    import concurrent.futures as cf
    import multiprocessing as mp

    t0 = time.time()
    env.setup()
    seed = env.seed()
    mod = load_prop(prop)
    findings = load_findings(prop)
    known = {tuple(e["key"]) for e in findings if e["status"] == "known"}
    violations: list[dict] = []

    # 1. listed known findings: re-run their minimal inputs
    clauses = {c.name: c for c in mod.CLAUSES}
    for e in findings:
        if e["status"] != "known":
            continue
        mi = e.get("minimal_input")
        hit = False
        if mi and mi["clause"] in clauses:
            ctx = Ctx(prop, tier, set())
            v = _run_case(clauses[mi["clause"]], mi["case"], ctx)
            hit = v is not None and v.key == tuple(e["key"])
            if v is not None and not hit and v.key not in known:
                violations.append(
                    dict(clause=v.clause, disc=v.disc, msg=v.msg,
                         case=mi["case"], clause_name=mi["clause"])
                )
        if hit:
            print(f"KNOWN-FINDING: property={prop} {e['what']}")
        else:
            print(
                f"NOTE: listed finding {e['key']} of {prop} did not reproduce "
                "on this tree"
            )

    # 2. committed replays (regression tier)
    rdir = os.path.join(env.VERIF_ROOT, "replays")
    n_replays = 0
    if os.path.isdir(rdir):
        for fn in sorted(os.listdir(rdir)):
            if not fn.startswith(prop + "-") or not fn.endswith(".json"):
                continue
            n_replays += 1
            v, _ = replay_file(prop, os.path.join(rdir, fn), known, tier)
            if v is not None:
                with open(os.path.join(rdir, fn)) as f:
                    body = json.load(f)
                violations.append(
                    dict(clause=v.clause, disc=v.disc, msg=v.msg,
                         case=body["case"], clause_name=body["clause"])
                )

    # 3. generated search
    jobs = []
    for c in mod.CLAUSES:
        if only_clause and c.name != only_clause:
            continue
        nshards, nex = c.budget[tier]
        scale = float(os.environ.get("PV_SCALE", "1"))
        nex = max(1, int(nex * scale)) if nex else 0
        for s in range(nshards):
            jobs.append((prop, c.name, s, nshards, nex, tier, seed,
                         sorted(known)))
    results = []
    nproc = int(os.environ.get("PV_PROCS", "16"))
    if violations:
        jobs = []
    if nproc <= 1 or len(jobs) <= 1:
        results = [run_job(j) for j in jobs]
    else:
        ctxmp = mp.get_context("fork")
        with cf.ProcessPoolExecutor(
            max_workers=min(nproc, len(jobs)), mp_context=ctxmp
        ) as ex:
            results = list(ex.map(run_job, jobs))

    if os.environ.get("PV_COLLECT"):
        allc: dict = {}
        for r in results:
            for k, (n, case, msg) in (r.get("collected") or {}).items():
                ent = allc.setdefault(k, [0, case, msg, r["clause"]])
                ent[0] += n
                if len(canon(case)) < len(canon(ent[1])):
                    ent[1], ent[2] = case, msg
        out = {}
        for k, (n, case, msg, cname) in sorted(allc.items(), key=lambda x: -x[1][0]):
            cl, disc = k.split("|", 1)
            clause = {c.name: c for c in mod.CLAUSES}[cname]
            small = ddmin_ops(clause, case, Violation(cl, disc), prop, tier)
            out[k] = dict(count=n, clause_name=cname, msg=msg, case=small)
            print(f"COLLECTED {n:6d}  {k}\n          {msg[:300]}")
        os.makedirs(evidence_dir(), exist_ok=True)
        with open(os.path.join(evidence_dir(), f"collected-{prop}.json"), "w") as f:
            f.write(json.dumps(out, indent=1, default=_jd))
    errors = [r for r in results if r.get("error")]
    if errors:
        for r in errors[:3]:
            print(
                f"HARNESS-ERROR property={prop} clause={r['clause']} "
                f"shard={r['shard']}\n{r['error']}",
                file=sys.stderr,
            )
        print(f"HARNESS-ERROR property={prop} ({len(errors)} job(s))")
        return 2

    for r in results:
        if r["violation"]:
            violations.append(r["violation"])

    # merge evidence
    per_clause: dict = {}
    nt_all: set = set()
    total_eval = 0
    bulk_nt = 0
    labels: collections.Counter = collections.Counter()
    excluded: collections.Counter = collections.Counter()
    samples: list = []
    steps = 0
    for r in results:
        pc = per_clause.setdefault(
            r["clause"], dict(evaluations=0, nt=set(), bulk_nt=0, wall_s=0.0)
        )
        pc["evaluations"] += r["evaluations"]
        pc["nt"].update(r["nt"])
        pc["bulk_nt"] += r["bulk_nt"]
        pc["wall_s"] = max(pc["wall_s"], round(r["wall"], 1))
        total_eval += r["evaluations"]
        nt_all.update((r["clause"], h) for h in r["nt"])
        bulk_nt += r["bulk_nt"]
        labels.update({f"{r['clause']}:{k}": v for k, v in r["labels"].items()})
        excluded.update(r["excluded"])
        steps += r.get("steps", 0)
    # samples: round-robin over clauses
    by_clause = collections.defaultdict(list)
    for r in results:
        for s in r["samples"]:
            by_clause[r["clause"]].append(s)
    for cname, lst in by_clause.items():
        for s in lst[:2]:
            samples.append({"clause": cname, "case": s})
    if not samples:
        for r in results:
            for k, s in r.get("excluded_samples", {}).items():
                samples.append({"clause": r["clause"], "case": s})
                break
    exhaustive_clauses = [c.name for c in mod.CLAUSES if c.exhaustive]
    coverage = dict(
        evaluations=total_eval,
        distinct_nontrivial=len(nt_all) + bulk_nt,
        rule=getattr(mod, "RULE", ""),
        samples=_trim(samples[:8]),
        clauses={
            k: dict(evaluations=v["evaluations"],
                    distinct_nontrivial=len(v["nt"]) + v["bulk_nt"],
                    wall_s=v["wall_s"])
            for k, v in per_clause.items()
        },
        labels=dict(sorted(labels.items())),
        excluded_known=dict(excluded),
        replays_run=n_replays,
        exhaustive=False,
        exhaustive_subdomains=exhaustive_clauses,
        clause_docs={c.name: c.doc for c in mod.CLAUSES if c.doc},
    )
    if steps:
        coverage["steps"] = steps
    ev = dict(
        property_id=prop,
        tier=tier,
        seed=seed,
        level="exploration",
        coverage=coverage,
        assumptions=list(getattr(mod, "ASSUMPTIONS", [])),
        wall_s=round(time.time() - t0, 2),
        violations=len(violations),
    )
    os.makedirs(evidence_dir(), exist_ok=True)
    with open(os.path.join(evidence_dir(), f"{prop}.json"), "w") as f:
        f.write(json.dumps(ev, indent=1, default=_jd))

    if violations:
        seen = set()
        for v in violations:
            k = (v["clause"], v["disc"])
            if k in seen:
                continue
            seen.add(k)
            path = write_replay(prop, v)
            print(f"  clause={v['clause']} disc={v['disc']}\n  {v['msg'][:1500]}")
            print(f"VIOLATION property={prop} replay={path}")
        return 1
    print(
        f"OK property={prop} tier={tier} seed={seed} evaluations={total_eval} "
        f"distinct_nontrivial={coverage['distinct_nontrivial']} "
        f"excluded_known={sum(excluded.values())} wall={ev['wall_s']}s"
    )
    return 0


def _trim(obj: Any, limit: int = 6000) -> Any:
    """Keep evidence samples readable: drop samples whose JSON is huge."""
    out = []
    for s in obj:
        js = canon(s)
        if len(js) > limit:
            out.append({"clause": s.get("clause"), "truncated_json": js[:limit]})
        else:
            out.append(json.loads(js))
    return out
