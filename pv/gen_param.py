"""Turns a concrete program into a parametrized one + value assignments."""
from __future__ import annotations

import math

from hypothesis import strategies as st

FLOAT_FIELDS = {
    "add": [], "delay": [], "phase_shift": ["phi"], "phase_shift_index": ["phi"],
    "add_eom": ["phase", "pps"], "enable_eom": ["amp_on", "det_on", "opt_off"],
    "modify_eom": ["amp_on", "det_on", "opt_off"],
}
INT_FIELDS = {"delay": ["d"], "add_eom": ["d"]}
WF_FLOAT = {"const": ["v"], "ramp": ["a", "b"], "blackman": ["area"], "kaiser": ["area"]}
PULSE_FLOAT = {"const_pulse": ["amp", "det", "phase", "pps"], "const_det": ["det", "phase", "pps"],
               "const_amp": ["amp", "phase", "pps"], "pulse": ["phase", "pps"]}


class PCtx:
    def __init__(self, draw, rate, custom_var=True):
        self.draw = draw
        self.rate = rate
        self.custom_var = custom_var
        self.vars: list = []       # dict(name, size, dtype)
        self.values: dict = {}     # name -> value (first assignment)
        self.n_ops2 = 0            # expressions with >= 2 operators

    def new_var(self, dtype, value, size=None):
        name = f"v{len(self.vars)}"
        self.vars.append(dict(name=name, size=size, dtype=dtype))
        self.values[name] = value
        return name

    def maybe(self):
        return self.draw(st.integers(0, 99)) < self.rate

    def float_expr(self, x: float, nonneg=False):
        d = self.draw
        t = d(st.sampled_from(["v", "v", "add", "mul", "neg", "div", "affine", "abs", "pow2",
                               "sqrt", "exp", "item", "sin_scaled", "tanh_scaled", "rdiv"]))
        c = d(st.sampled_from([0.5, 1.5, -2.0, 3.0, 0.25]))
        if t == "v":
            return {"var": self.new_var("float", x)}
        if t == "item":
            n = d(st.integers(2, 3))
            i = d(st.integers(0, n - 1))
            vals = [d(st.sampled_from([0.0, 1.0, 0.3])) for _ in range(n)]
            vals[i] = x
            # the same item named from the end (-1 ... -n) half of the time
            return {"var": self.new_var("float", vals, size=n), "idx": i - n if d(st.booleans()) else i}
        if t == "add":
            return {"fn": "add", "a": {"var": self.new_var("float", x - c)}, "b": c,
                    "swap": d(st.booleans())}
        if t == "mul":
            return {"fn": "mul", "a": {"var": self.new_var("float", x / c)}, "b": c,
                    "swap": d(st.booleans())}
        if t == "neg":
            return {"fn": "neg", "a": {"var": self.new_var("float", -x)}}
        if t == "div":
            return {"fn": "div", "a": {"var": self.new_var("float", x * c)}, "b": c}
        if t == "rdiv" and abs(x) > 1e-3:
            return {"fn": "div", "a": {"var": self.new_var("float", c / x)}, "b": c, "swap": True}
        if t == "affine":
            self.n_ops2 += 1
            k = d(st.sampled_from([2.0, -0.5]))
            return {"fn": "mul", "a": {"fn": "add", "a": {"var": self.new_var("float", x / k - c)}, "b": c}, "b": k}
        if t == "abs" and x >= 0:
            return {"fn": "abs", "a": {"var": self.new_var("float", x * d(st.sampled_from([1, -1])))}}
        if t == "pow2" and x >= 0:
            return {"fn": "pow", "a": {"var": self.new_var("float", math.sqrt(x))}, "b": 2}
        if t == "sqrt" and x >= 0:
            return {"fn": "sqrt", "a": {"var": self.new_var("float", x * x)}}
        if t == "exp" and x > 1e-6:
            return {"fn": "exp", "a": {"var": self.new_var("float", math.log(x))}}
        if t == "sin_scaled" and not nonneg:
            self.n_ops2 += 1
            return {"fn": "mul", "a": {"fn": "sin", "a": {"var": self.new_var("float", 0.7)}},
                    "b": x / math.sin(0.7)}
        if t == "tanh_scaled":
            self.n_ops2 += 1
            return {"fn": "mul", "a": {"fn": "tanh", "a": {"var": self.new_var("float", 0.4)}},
                    "b": x / math.tanh(0.4)}
        return {"var": self.new_var("float", x)}

    def int_expr(self, x: int, duration=False):
        d = self.draw
        t = d(st.sampled_from(["v", "v", "add", "mul", "floordiv", "mod", "ceil", "floor", "round", "cast", "item"]
                              + (["frac"] if duration else [])))
        if t == "frac":
            # a duration that does not come out whole (x + 0.6, or just below x + 1): the API
            # truncates it, for a plain number and for what a variable evaluates to alike
            f = d(st.sampled_from([0.6, 0.5, 0.99]))
            return {"fn": "add", "a": {"var": self.new_var("float", x - 1.5)}, "b": 1.5 + f}
        if t == "item":
            n = d(st.integers(1, 3))
            i = d(st.integers(0, n - 1))
            vals = [d(st.sampled_from([0, 1, 16])) for _ in range(n)]
            vals[i] = x
            return {"var": self.new_var("int", vals, size=n), "idx": i - n if d(st.booleans()) else i}
        if t == "add":
            c = d(st.sampled_from([1, 4, -3]))
            return {"fn": "add", "a": {"var": self.new_var("int", x - c)}, "b": c, "swap": d(st.booleans())}
        if t == "mul" and x % 2 == 0:
            return {"fn": "mul", "a": {"var": self.new_var("int", x // 2)}, "b": 2}
        if t == "floordiv":
            return {"fn": "floordiv", "a": {"var": self.new_var("int", x * 3 + 1)}, "b": 3}
        if t == "mod" and x >= 0:
            m = x + d(st.sampled_from([1, 7]))
            return {"fn": "mod", "a": {"var": self.new_var("int", x + m)}, "b": m}
        if t == "ceil":
            return {"fn": "ceil", "a": {"var": self.new_var("float", x - 0.3)}}
        if t == "floor":
            return {"fn": "floor", "a": {"var": self.new_var("float", x + 0.3)}}
        if t == "round":
            return {"fn": "round", "a": {"var": self.new_var("float", x + 0.2)}}
        return {"var": self.new_var("int", x)}


def _num(x):
    return isinstance(x, (int, float)) and not isinstance(x, bool)


def param_wf(pc: PCtx, wf: dict, nonneg: bool):
    k = wf["k"]
    out = dict(wf)
    if k in WF_FLOAT:
        for f in WF_FLOAT[k]:
            if _num(wf.get(f)) and pc.maybe():
                out[f] = pc.float_expr(float(wf[f]), nonneg)
        if _num(wf.get("d")) and pc.maybe():
            out["d"] = pc.int_expr(int(wf["d"]), duration=True)
    elif k == "interp" and (pc.maybe() or pc.maybe()):
        vals = list(map(float, wf["values"]))
        n = len(vals)
        if pc.draw(st.booleans()):
            out["values"] = {"var": pc.new_var("float", vals, size=n)}
        else:
            # the values are a (strided / reversed / offset) slice of a longer variable
            cands = []
            for sl in ([None, None, 2], [None, None, -1], [None, None, -2], [1, None, 2], [1, None, 3],
                       [None, None, 3], [1, -1, 1], [0, n, 1]):
                for m in range(n, 3 * n + 4):
                    if len(range(m)[slice(*sl)]) == n:
                        cands.append((sl, m))
            sl, m = pc.draw(st.sampled_from(cands))
            full = [0.125] * m
            for pos, v in zip(range(m)[slice(*sl)], vals):
                full[pos] = v
            out["values"] = {"var": pc.new_var("float", full, size=m), "slice": sl}
    elif k == "custom" and pc.custom_var and len(wf["samples"]) <= 8 and pc.maybe():
        out["samples"] = {"var": pc.new_var("float", list(map(float, wf["samples"])), size=len(wf["samples"]))}
    elif k == "composite":
        out["parts"] = [param_wf(pc, p, nonneg) for p in wf["parts"]]
    return out


def param_pulse(pc: PCtx, p: dict):
    k = p["k"]
    out = dict(p)
    for f in PULSE_FLOAT.get(k, []):
        if _num(p.get(f)) and pc.maybe():
            out[f] = pc.float_expr(float(p[f]), nonneg=(f == "amp"))
    if k == "const_pulse" and _num(p.get("d")) and pc.maybe():
        out["d"] = pc.int_expr(int(p["d"]), duration=True)
    for f in ("amp", "det"):
        if isinstance(p.get(f), dict):
            out[f] = param_wf(pc, p[f], nonneg=(f == "amp"))
    return out


@st.composite
def parametrized(draw, prog: dict, rate: int = 30, n_assign=(1, 3), custom_var=True, concrete_prefix=0):
    """`concrete_prefix`: the first that many ops keep their plain values (they are executed at
    once on the template and replayed by build)."""
    pc = PCtx(draw, rate, custom_var)
    ops = []
    for k_op, op in enumerate(prog["ops"]):
        o = op["op"]
        new = dict(op)
        if k_op < concrete_prefix:
            ops.append(new)
            continue
        for f in FLOAT_FIELDS.get(o, []):
            if _num(op.get(f)) and pc.maybe():
                new[f] = pc.float_expr(float(op[f]), nonneg=(f == "amp_on"))
        for f in INT_FIELDS.get(o, []):
            if _num(op.get(f)) and op[f] > 0 and pc.maybe():
                new[f] = pc.int_expr(int(op[f]), duration=True)
        if o == "add" and isinstance(op.get("pulse"), dict):
            new["pulse"] = param_pulse(pc, op["pulse"])
        if o == "add_dmm" and isinstance(op.get("wf"), dict):
            new["wf"] = param_wf(pc, op["wf"], False)
        if o == "target_index" and pc.maybe() and all(isinstance(q, int) for q in op["qubits"]):
            nq = len(prog["register"]["ids"]) if not prog["register"].get("mappable") else prog["register"]["mappable"]
            qs = [q % nq for q in op["qubits"]]
            if len(qs) == 1 and draw(st.booleans()):
                # a single parametrized index (collections of parametrized items
                # are not part of the documented argument types)
                new["qubits"] = pc.int_expr(qs[0])
                new["raw"] = True
                new.pop("scalar", None)
            else:
                new["qubits"] = {"var": pc.new_var("int", qs, size=len(qs))}
                new["raw"] = True
                new.pop("scalar", None)
                new.pop("as_set", None)
        ops.append(new)
    decl = [dict(op="declare_var", name=v["name"], size=v["size"], dtype=v["dtype"]) for v in pc.vars]
    # declarations somewhere before first use: at the start, or just after the first op
    pos = draw(st.sampled_from([0, 0, 1])) if ops else 0
    ops = ops[:pos] + decl + ops[pos:]
    assigns = [dict(pc.values)]
    for _ in range(draw(st.integers(*n_assign)) - 1):
        kind = draw(st.sampled_from(["same", "scaled", "scaled", "nudged"]))
        a = {}
        for v in pc.vars:
            x = pc.values[v["name"]]
            if kind == "same":
                a[v["name"]] = x
            elif v["dtype"] == "int":
                a[v["name"]] = x  # integers (durations, indices) stay: other values rarely remain valid
            elif kind == "nudged":
                # a value next to the previous build's (finite-difference step): still another value
                base = assigns[-1][v["name"]]
                nd = lambda y: y * (1 - 3e-6) + 3e-9  # noqa: E731
                a[v["name"]] = [nd(y) for y in base] if isinstance(base, list) else nd(base)
            else:
                f = draw(st.sampled_from([1.0, 0.5, 0.9, 0.75]))
                a[v["name"]] = [y * f for y in x] if isinstance(x, list) else x * f
        assigns.append(a)
    return dict(device=prog["device"], register=prog["register"], ops=ops, vars=pc.vars,
                assignments=assigns, n_ops2=pc.n_ops2)
