"""CLI: python -m pv.main <ID> [--tier quick|thorough] [--replay F] [--clause C]."""
from __future__ import annotations

import argparse
import os
import sys
import traceback


def main() -> int:
    ap = argparse.ArgumentParser()
    ap.add_argument("prop")
    ap.add_argument("--tier", default=os.environ.get("VERIF_TIER", "quick"))
    ap.add_argument("--replay")
    ap.add_argument("--clause")
    a = ap.parse_args()
    prop = a.prop.upper()
    tier = a.tier if a.tier in ("quick", "thorough") else "quick"
    from pv import engine, env

    try:
        env.setup()
        if a.replay:
            path = a.replay
            if not os.path.isabs(path):
                path = os.path.join(env.VERIF_ROOT, path)
            v, _ = engine.replay_file(prop, path, set(), tier)
            if v is not None:
                print(f"  {v}")
                rel = os.path.relpath(path, env.VERIF_ROOT)
                print(f"VIOLATION property={prop} replay={rel}")
                return 1
            print(f"OK property={prop} replay passed")
            return 0
        return engine.run_property(prop, tier, a.clause)
    except env.HarnessError as e:
        print(f"HARNESS-ERROR property={prop}: {e}")
        return 2
    except Exception:  # noqa: BLE001
        traceback.print_exc()
        print(f"HARNESS-ERROR property={prop}")
        return 2


if __name__ == "__main__":
    sys.exit(main())
