"""Canonical, comparable snapshot of a Sequence (read-only access)."""
from __future__ import annotations

import hashlib
import inspect
import math
from typing import Any

import numpy as np

from pv import env

env.setup()

from pulser import Pulse, Sequence  # noqa: E402
from pulser.parametrized import Parametrized  # noqa: E402
from pulser.register.base_register import BaseRegister  # noqa: E402
from pulser.register.mappable_reg import MappableRegister  # noqa: E402
from pulser.register.weight_maps import WeightMap  # noqa: E402
from pulser.waveforms import Waveform  # noqa: E402

TWO_PI = 2 * math.pi


def _arr(x) -> np.ndarray:
    if hasattr(x, "as_array"):
        return np.asarray(x.as_array(detach=True), dtype=float)
    return np.asarray(x, dtype=float)


def hash_arr(x, decimals: int = 9) -> str:
    a = np.round(_arr(x), decimals) + 0.0
    return hashlib.sha1(a.tobytes()).hexdigest()[:12]


def cphase(p) -> float:
    v = float(_arr(p).reshape(-1)[0]) % TWO_PI
    v = round(v, 9)
    if v >= round(TWO_PI, 9):
        v = 0.0
    return v


def wf_sig(wf: Waveform):
    return (type(wf).__name__, int(wf.duration), hash_arr(wf.samples))


def pulse_sig(p: Pulse):
    return ("Pulse", wf_sig(p.amplitude), wf_sig(p.detuning), cphase(p.phase),
            cphase(p.post_phase_shift))


def tsort(targets) -> list:
    return sorted(map(str, targets))


def slot_sig(s):
    if isinstance(s.type, Pulse):
        return ("pulse", int(s.ti), int(s.tf), tsort(s.targets), pulse_sig(s.type))
    return (str(s.type), int(s.ti), int(s.tf), tsort(s.targets))


def reg_sig(reg):
    if isinstance(reg, MappableRegister):
        return ("mappable", list(map(str, reg.qubit_ids)), layout_sig(reg.layout))
    assert isinstance(reg, BaseRegister)
    coords = [np.round(_arr(c), 9).tolist() for c in reg.qubits.values()]
    lay = None
    if reg.layout is not None:
        lay = (layout_sig(reg.layout), list(map(int, reg._layout_info.trap_ids)))
    return (type(reg).__name__, list(map(str, reg.qubit_ids)), coords, lay)


def layout_sig(lay):
    return (np.round(lay.coords, 9).tolist(), lay.slug)


def canon_val(v: Any) -> Any:
    if isinstance(v, Parametrized):
        return ("param", str(v))
    if isinstance(v, Pulse):
        return pulse_sig(v)
    if isinstance(v, Waveform):
        return wf_sig(v)
    if isinstance(v, WeightMap):
        return ("detmap", np.round(v.sorted_coords, 9).tolist(),
                np.round(v.sorted_weights, 12).tolist(), v.slug)
    if isinstance(v, (BaseRegister, MappableRegister)):
        return reg_sig(v)
    if isinstance(v, (set, frozenset)):
        return ["set"] + sorted(map(str, v))
    if isinstance(v, (list, tuple)):
        return [canon_val(x) for x in v]
    if isinstance(v, dict):
        return {str(k): canon_val(x) for k, x in v.items()}
    if isinstance(v, (bool, str)) or v is None:
        return v
    if isinstance(v, (int, np.integer)):
        return int(v)
    if isinstance(v, (float, np.floating)):
        return round(float(v), 9)
    if hasattr(v, "as_array") or isinstance(v, np.ndarray):
        a = _arr(v)
        if a.size == 1:
            return round(float(a.reshape(-1)[0]), 9)
        return np.round(a, 9).tolist()
    if hasattr(v, "name") and hasattr(v, "channel_objects"):
        return ("device", v.name)
    return repr(v)


_SIGS: dict = {}


def canon_call(call) -> tuple:
    name = call.name
    if name == "__init__":
        b = dict(zip(("register", "device"), call.args))
        b.update(call.kwargs)
        return ("__init__", canon_val(b.get("register")), canon_val(b.get("device")))
    if name not in _SIGS:
        _SIGS[name] = inspect.signature(getattr(Sequence, name))
    sig = _SIGS[name]
    try:
        ba = sig.bind(None, *call.args, **call.kwargs)
        ba.apply_defaults()
        args = {k: canon_val(v) for k, v in ba.arguments.items() if k != "self"}
    except TypeError:
        args = {"args": canon_val(call.args), "kwargs": canon_val(call.kwargs)}
    return (name, args)


def snapshot(seq: Sequence, calls: bool = True) -> dict:
    sch = {}
    for name, cs in seq._schedule.items():
        blocks = [
            (int(b.ti), None if b.tf is None else int(b.tf),
             round(float(_arr(b.rabi_freq).reshape(-1)[0]), 9),
             round(float(_arr(b.detuning_on).reshape(-1)[0]), 9),
             round(float(_arr(b.detuning_off).reshape(-1)[0]), 9),
             [str(x.name) for x in b.switching_beams])
            for b in cs.eom_blocks
        ]
        entry = dict(
            channel_id=cs.channel_id,
            slots=[slot_sig(s) for s in cs.slots],
            eom_blocks=blocks,
        )
        if hasattr(cs, "detuning_map"):
            entry["detuning_map"] = canon_val(cs.detuning_map)
            entry["waiting"] = bool(cs._waiting_for_first_pulse)
        sch[name] = entry
    refs = {}
    for basis, d in seq._basis_ref.items():
        refs[basis] = {
            str(q): (list(map(int, r.phase._times)),
                     [cphase(p) for p in r.phase._phases], int(r.last_used))
            for q, r in d.items()
        }
    snap = dict(
        channels=sch,
        basis_ref=refs,
        measurement=getattr(seq, "_measurement", None),
        param_measurement=seq._param_measurement,
        slm_targets=tsort(seq._slm_mask_targets),
        slm_dmm=seq._slm_mask_dmm,
        mag_field=None if seq._mag_field is None else [round(float(x), 9) for x in seq._mag_field],
        in_xy=bool(seq._in_xy),
        in_ising=bool(seq._in_ising),
        empty=bool(seq._empty_sequence),
        register=reg_sig(seq._register),
        qids=sorted(map(str, seq._qids)),
        device=seq._device.name,
        parametrized=seq.is_parametrized(),
        variables={k: (v.dtype.__name__, int(v.size)) for k, v in seq._variables.items()},
    )
    if calls:
        snap["calls"] = [canon_call(c) for c in seq._calls]
        snap["to_build_calls"] = [canon_call(c) for c in seq._to_build_calls]
    return snap


def diff(a: Any, b: Any, path: str = "") -> str | None:
    """First differing path between two snapshots (None if equal)."""
    if type(a) is not type(b) and not (
        isinstance(a, (list, tuple)) and isinstance(b, (list, tuple))
    ):
        if isinstance(a, (int, float)) and isinstance(b, (int, float)) and a == b:
            return None
        return f"{path}: {a!r} != {b!r}"[:400]
    if isinstance(a, dict):
        for k in sorted(set(a) | set(b), key=str):
            if k not in a:
                return f"{path}/{k}: missing on left"
            if k not in b:
                return f"{path}/{k}: missing on right"
            d = diff(a[k], b[k], f"{path}/{k}")
            if d:
                return d
        return None
    if isinstance(a, (list, tuple)):
        if len(a) != len(b):
            return f"{path}: length {len(a)} != {len(b)}"
        for i, (x, y) in enumerate(zip(a, b)):
            d = diff(x, y, f"{path}/{i}")
            if d:
                return d
        return None
    if a != b:
        return f"{path}: {a!r} != {b!r}"[:400]
    return None


def diff_key(d: str) -> str:
    """Coarse discriminator from a diff path: drops indices and names."""
    head = d.split(":")[0]
    parts = [p for p in head.split("/") if p and not p.isdigit()]
    out = []
    for i, p in enumerate(parts):
        if i >= 1 and parts[i - 1] in ("channels", "basis_ref"):
            out.append("*")
        elif i >= 2 and parts[i - 2] == "basis_ref":
            out.append("*")
        else:
            out.append(p)
    return "/".join(out)


def timeline(seq: Sequence) -> dict:
    """Only the per-channel slot lists (used by C18 / C09)."""
    return {n: [slot_sig(s) for s in cs.slots] for n, cs in seq._schedule.items()}
